"""Shared Rust text for the device checks C08 (state projection), C13 (command relay)."""

RUST = r'''
    use rrtk::devices::*;
    pub fn sym_state() -> State { State::new_raw(sym_f32(), sym_f32(), sym_f32()) }
    pub fn sym_cmd() -> Command { Command::new(sym_kind(), sym_f32()) }
    /// put a state / command into a terminal if the job's skeleton says it has one; returns what was put
    pub fn put_state(t: &RefCell<Terminal<E>>, present: bool) -> Option<Datum<State>> {
        if !present { return None; }
        let d = Datum::new(Time(kani::any()), sym_state());
        t.borrow_mut().set(d).unwrap();
        Some(d)
    }
    pub fn put_cmd(t: &RefCell<Terminal<E>>, present: bool) -> Option<Datum<Command>> {
        if !present { return None; }
        let d = Datum::new(Time(kani::any()), sym_cmd());
        t.borrow_mut().set(d).unwrap();
        Some(d)
    }
    pub fn held_state(t: &RefCell<Terminal<E>>) -> Option<Datum<State>> { t.borrow().get_last_request() }
    pub fn held_cmd(t: &RefCell<Terminal<E>>) -> Option<Datum<Command>> { t.borrow().get_last_request() }
    pub fn sds(a: Option<Datum<State>>, b: Option<Datum<State>>) -> bool {
        match (a, b) { (None, None) => true, (Some(x), Some(y)) => x.time == y.time && same_state(x.value, y.value), _ => false }
    }
    pub fn sdc(a: Option<Datum<Command>>, b: Option<Datum<Command>>) -> bool {
        match (a, b) { (None, None) => true, (Some(x), Some(y)) => x.time == y.time && same_cmd(x.value, y.value), _ => false }
    }
    pub fn st(p: f32, v: f32, a: f32) -> State { State::new_raw(p, v, a) }
    pub fn smap(s: State, f: impl Fn(f32) -> f32) -> State { State::new_raw(f(s.position), f(s.velocity), f(s.acceleration)) }
    pub fn smap2(a: State, b: State, f: impl Fn(f32, f32) -> f32) -> State {
        State::new_raw(f(a.position, b.position), f(a.velocity, b.velocity), f(a.acceleration, b.acceleration))
    }
    pub fn cmap(c: Command, f: impl Fn(f32) -> f32) -> Command { Command::new(PositionDerivative::from(c), f(f32::from(c))) }
'''
