"""Regenerates /verif/MANIFEST.json from the per-property modules that exist (python3 -m vk.manifest_gen)."""
import importlib
import json
import os
import subprocess

from . import core

ALL = ["C%02d" % i for i in range(1, 21)]

NOTE = ("Bounded: every verdict holds for all values inside the bounds listed in the evidence (history length, arity, "
        "|t| < 2^60 ns, unit exponents), nothing is claimed outside them. Trusted: rustc/Kani MIR->goto translation, CBMC symex and "
        "float_bv, the calibrated repair of CBMC's SMT2 overflow_result encoding, CaDiCaL, cvc5/z3 (cross-checked), std's "
        "Rc/RefCell/Mutex/RwLock. Kani models the dev profile with dimension checking on.")


def main():
    checks = []
    na = []
    for pid in ALL:
        try:
            mod = importlib.import_module("vk.props." + pid.lower())
        except ImportError:
            na.append({"property_id": pid, "reason": "check not built yet (in progress); see DESIGN.md section 3 for the plan"})
            continue
        m = dict(getattr(mod, "MANIFEST", {}))
        # per-property assumptions / gaps, taken from the evidence the check itself wrote on its last run in /verif
        try:
            ev = json.load(open(os.path.join(core.ROOT, "evidence", pid + ".json")))
            cov = ev["coverage"]
            gaps = "; ".join(cov.get("outside_claim", [])) or "none recorded"
            bounds = "; ".join("%s: %s" % (k, v) for k, v in cov.get("bounds", {}).items())
            m.setdefault("note", NOTE + " BOUNDS for %s: %s. NOT DECIDED (outside the claim): %s. Check-specific assumptions: %s"
                         % (pid, bounds, gaps, "; ".join(ev.get("assumptions", [])) or "none"))
            fn = cov.get("functions_encoded", [])
            m.setdefault("text", "Bounded symbolic model checking of the compiled rrtk code (%s): generated Kani harnesses over symbolic inputs, CBMC symbolic execution, "
                                 "every obligation decided by CaDiCaL or cvc5||z3 for ALL values within the stated bounds; counterexamples are replayed natively before they are reported."
                         % (", ".join(fn[:4]) + (" ..." if len(fn) > 4 else "")))
        except (OSError, KeyError, ValueError):
            pass
        checks.append({
            "property_id": pid,
            "quick_cmd": "./check %s --tier quick" % pid,
            "thorough_cmd": "./check %s --tier thorough" % pid,
            "evidence_file": "/verif/evidence/%s.json" % pid,
            "replay_cmd_template": "./check %s --replay {path}" % pid,
            "engine": m.get("engine", "kani-cbmc-smt"),
            "level_claimed": {
                "category": "model_checking",
                "text": m.get("text", "Bounded symbolic model checking of the compiled rrtk code: Kani/CBMC symbolically executes generated harnesses "
                              "over symbolic inputs and a SAT/SMT solver decides every obligation for all values within the stated bounds."),
                "design_ref": m.get("design_ref", "DESIGN.md section 3, " + pid),
            },
            "level_note": m.get("note", NOTE),
            "technique": m.get("technique", "solver-based bounded checking of the real code: Kani -> CBMC symex -> CaDiCaL / SMT-LIB2 (cvc5 || z3)"),
        })
    commits = []
    try:
        out = subprocess.run(["git", "-C", core.REPO, "log", "--format=%H %s"], capture_output=True, text=True).stdout
        commits = [l.split()[0] for l in out.splitlines() if " hook:" in l or l.split(" ", 1)[1].startswith("hook")]
    except Exception:
        pass
    man = {
        "version": 1,
        "setup_cmd": "python3 -m vk.setup",
        "hooks": {
            "guard": "cfg(kani)",
            "enable": "set by the Kani compiler only (cargo kani passes --cfg=kani); never set in a normal cargo build",
            "baseline_off_cmd": "cd /repo && cargo test --workspace --no-fail-fast --offline",
            "source_commits": commits,
            "add_only": True,
        },
        "engines": [
            {"name": "kani-cbmc-smt", "path": "/verif/vk", "serves_properties": [c["property_id"] for c in checks],
             "kind_free_text": "Kani 0.68 front end over generated harness crates; CBMC 6.11 symex; CaDiCaL (E1) or SMT-LIB2 dump decided by cvc5 || z3 (E2); "
                               "z3/cvc5 over Real for lemmas about the spec trees; hunt on dyadic grids + native replay for counterexamples"},
        ],
        "checks": checks,
        "not_applicable": na,
        "notes": "See DESIGN.md. known_findings.json lists genuine defects recorded rather than repaired; fixed ones are listed there as fixed.",
    }
    with open(os.path.join(core.ROOT, "MANIFEST.json"), "w") as f:
        json.dump(man, f, indent=1)
    print("MANIFEST.json: %d checks, %d not_applicable" % (len(checks), len(na)))


if __name__ == "__main__":
    main()
