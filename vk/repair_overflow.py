"""Repair CBMC 6.11's SMT2 back-end mis-encoding of overflow_result-{+,-,*}.

CBMC emits `(concat VALUE FLAG)` for the {result, overflowed} struct but reads `.result` from the
low bits and `.overflowed` from the top bit. We swap the operands to `(concat FLAG VALUE)`.
The calibration suite (calib.py) checks the repaired encoding on both sides of i8/i64 overflow
boundaries before any verdict is believed."""
import re
import sys

_PAT = "(concat ((_ extract "
_ARG1 = re.compile(r"\(\(_ extract (\d+) 0\) (\?sum|prod)\)")


def _match_paren(s, i):
    d = 0
    j = i
    inq = False
    while True:
        c = s[j]
        if inq:
            if c == '|':
                inq = False
        else:
            if c == '|':
                inq = True
            elif c == '(':
                d += 1
            elif c == ')':
                d -= 1
                if d == 0:
                    return j + 1
        j += 1


def repair(s):
    out = []
    i = 0
    n = 0
    while True:
        k = s.find(_PAT, i)
        if k < 0:
            out.append(s[i:])
            break
        out.append(s[i:k])
        a0 = k + len("(concat ")
        a1 = _match_paren(s, a0)
        arg1 = s[a0:a1]
        b0 = a1
        while s[b0] == ' ':
            b0 += 1
        if s[b0] == '(':
            b1 = _match_paren(s, b0)
            arg2 = s[b0:b1]
            end = b1
            while s[end] == ' ':
                end += 1
            if _ARG1.fullmatch(arg1) and arg2.startswith("(ite ") and arg2.endswith(" #b1 #b0)") and s[end] == ')':
                out.append("(concat " + arg2 + " " + arg1 + ")")
                i = end + 1
                n += 1
                continue
        out.append(_PAT)
        i = k + len(_PAT)
    return "".join(out), n


if __name__ == "__main__":
    txt, n = repair(open(sys.argv[1]).read())
    open(sys.argv[2], "w").write(txt)
    sys.stderr.write("repaired %d overflow_result sites\n" % n)
