"""Evaluate a seeded change produced by an independent sub-agent.

usage: python3 -m vk.seedtest <dir with patch.diff demo.rs meta.json> <PROP> [name]
 1. scratch git worktree of /repo (outside /repo and /verif); patch applies; the existing suite still passes with it;
    the demonstration fails with the patch and passes without it;
 2. the property's quick check is run against the patched scratch tree (VK_REPO / VK_WORK point there, so /repo itself
    is never modified and other work is not disturbed) -> expect exit 1 + VIOLATION;
 3. everything is recorded under /verif/seeded/<name>/ and the scratch worktree is removed."""
import json
import os
import shutil
import subprocess
import sys
import time

ROOT = os.path.dirname(os.path.dirname(os.path.abspath(__file__)))


def sh(cmd, cwd=None, env=None, timeout=3600):
    p = subprocess.run(cmd, cwd=cwd, env=env, shell=isinstance(cmd, str), stdout=subprocess.PIPE, stderr=subprocess.STDOUT, text=True, timeout=timeout)
    return p.returncode, p.stdout


def main():
    src, prop = sys.argv[1], sys.argv[2].upper()
    name = sys.argv[3] if len(sys.argv) > 3 else "%s_%s" % (prop, os.path.basename(src.rstrip("/")))
    sw = "/tmp/vk_seed_%s" % name
    work = "/tmp/vk_seedwork_%s" % name
    out = os.path.join(ROOT, "seeded", name)
    os.makedirs(out, exist_ok=True)
    rec = {"property": prop, "source": src, "ran": []}
    sh(["git", "-C", "/repo", "worktree", "remove", "--force", sw])
    shutil.rmtree(sw, ignore_errors=True)
    rc, o = sh(["git", "-C", "/repo", "worktree", "add", "--detach", sw, "HEAD"])
    assert rc == 0, o
    try:
        patch = os.path.join(src, "patch.diff")
        rc, o = sh(["git", "apply", patch], cwd=sw)
        rec["patch_applies"] = rc == 0
        rec["ran"].append("git apply patch.diff (scratch worktree of /repo HEAD)")
        if rc != 0:
            rec["error"] = o[-500:]
            return finish(rec, out, src, sw, work)
        env = dict(os.environ, CARGO_NET_OFFLINE="true", CARGO_TARGET_DIR=sw + "/target")
        prev = {}
        try:
            prev = json.load(open(os.path.join(src, "meta.json"))).get("evaluation", {})
        except Exception:
            pass
        if prev.get("suite_passes_with_patch") is not None and not os.environ.get("VK_SEED_FULL"):
            # re-evaluation of an already validated change: suite / demonstration results are kept, only the check is re-run
            for k in ("suite_passes_with_patch", "demo_fails_with_patch", "demo_passes_without_patch"):
                rec[k] = prev.get(k)
            rec["ran"] += [x for x in prev.get("ran", []) if x.startswith("cargo test") or x.startswith("demo as")]
            rec["re_evaluated"] = "check only (suite and demonstration results carried over from the first evaluation)"
            return run_check(rec, out, src, sw, work, prop, patch, already_applied=True)
        rc1, o1 = sh("cargo test --workspace --no-fail-fast --offline 2>&1 | grep -E '^test result|FAILED|^error' ", cwd=sw, env=env)
        rc2, o2 = sh("cargo test --offline --features devices 2>&1 | grep -E '^test result|FAILED|^error' ", cwd=sw, env=env)
        rec["suite_passes_with_patch"] = ("FAILED" not in o1 + o2) and ("error" not in o1 + o2) and "test result: ok" in o1
        rec["ran"] += ["cargo test --workspace --no-fail-fast --offline", "cargo test --offline --features devices"]
        demo = os.path.join(src, "demo.rs")
        shutil.copy(demo, os.path.join(sw, "tests", "vk_demo.rs"))
        rc3, o3 = sh("cargo test --offline --features devices --test vk_demo 2>&1 | tail -5", cwd=sw, env=env)
        rec["demo_fails_with_patch"] = "test result: FAILED" in o3 or "panicked" in o3
        sh(["git", "apply", "-R", patch], cwd=sw)
        rc4, o4 = sh("cargo test --offline --features devices --test vk_demo 2>&1 | tail -5", cwd=sw, env=env)
        rec["demo_passes_without_patch"] = "test result: ok" in o4
        os.remove(os.path.join(sw, "tests", "vk_demo.rs"))
        rec["ran"] += ["demo as tests/vk_demo.rs: cargo test --features devices --test vk_demo (with patch, then with patch reverted)"]
        return run_check(rec, out, src, sw, work, prop, patch, already_applied=False)
    finally:
        pass


def run_check(rec, out, src, sw, work, prop, patch, already_applied):
    try:
        # now the check, against the patched scratch tree
        if not already_applied:
            sh(["git", "apply", patch], cwd=sw)
        shutil.rmtree(sw + "/target", ignore_errors=True)
        env2 = dict(os.environ, VK_REPO=sw, VK_WORK=work, VK_JOBS=os.environ.get("VK_SEED_JOBS", "8"))
        if rec.get("re_evaluated"):
            # a violation found with fewer hunts is also found with the default number (exit 1 as soon as one reproduces);
            # anything that is NOT detected this way is re-run with the defaults before it is recorded as a miss
            env2.setdefault("VK_MAX_HUNTS", "2")
            env2.setdefault("VK_RELEASE_REPLAY", "0")
            env2.setdefault("VK_SKIP_AFTER", "3")
            env2.setdefault("VK_BUDGET", "90")
            rec["re_evaluated"] += "; VK_MAX_HUNTS=%s VK_RELEASE_REPLAY=%s VK_SKIP_AFTER=%s VK_BUDGET=%s (each only narrows what is examined)" % (env2["VK_MAX_HUNTS"], env2["VK_RELEASE_REPLAY"], env2["VK_SKIP_AFTER"], env2["VK_BUDGET"])
        t0 = time.time()
        rc5, o5 = sh([os.path.join(ROOT, "check"), prop, "--tier", "quick"], cwd=ROOT, env=env2, timeout=7200)
        rec["check_exit"] = rc5
        rec["check_wall_s"] = round(time.time() - t0)
        rec["check_violation_lines"] = [l for l in o5.splitlines() if l.startswith("VIOLATION")][:6]
        rec["check_tail"] = o5.splitlines()[-12:]
        rec["detected"] = rc5 == 1 and bool(rec["check_violation_lines"])
        rec["ran"].append("VK_REPO=<patched scratch tree> ./check %s --tier quick" % prop)
    finally:
        pass
    return finish(rec, out, src, sw, work)


def finish(rec, out, src, sw, work):
    for f in ("patch.diff", "demo.rs"):
        if os.path.exists(os.path.join(src, f)):
            shutil.copy(os.path.join(src, f), os.path.join(out, f))
    meta = {}
    try:
        meta = json.load(open(os.path.join(src, "meta.json")))
    except Exception:
        pass
    meta["evaluation"] = rec
    # replays written during the check live under /verif/replays (ignored by git); keep only the verdict here
    with open(os.path.join(out, "meta.json"), "w") as f:
        json.dump(meta, f, indent=1)
    subprocess.run(["git", "-C", "/repo", "worktree", "remove", "--force", sw], capture_output=True)
    shutil.rmtree(sw, ignore_errors=True)
    shutil.rmtree(work, ignore_errors=True)
    print(json.dumps({k: rec.get(k) for k in ("patch_applies", "suite_passes_with_patch", "demo_fails_with_patch", "demo_passes_without_patch", "check_exit", "detected", "check_wall_s")}))
    return 0


if __name__ == "__main__":
    sys.exit(main())
