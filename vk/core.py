"""Core of the solver-based checker: build the generated harness crate with Kani,
replay Kani's link/instrument steps per job, run CBMC symex and decide with
CaDiCaL (engine E1) or SMT-LIB2 + cvc5 || z3 (engine E2); hunt + native replay on failure.
See DESIGN.md sections 2 and 6."""
import concurrent.futures as cf
import glob
import hashlib
import json
import os
import re
import resource
import shutil
import subprocess
import sys
import threading
import time

from . import repair_overflow

ROOT = os.path.dirname(os.path.dirname(os.path.abspath(__file__)))
REPO = os.environ.get("VK_REPO", "/repo")
WORK = os.environ.get("VK_WORK", os.path.join(ROOT, ".work"))
NCPU = int(os.environ.get("VK_JOBS", str(os.cpu_count() or 8)))
MEM_LIMIT = int(os.environ.get("VK_MEM_GB", "10")) << 30

CBMC_FLAGS = ["--no-malloc-may-fail", "--no-undefined-shift-check", "--no-signed-overflow-check",
              "--no-self-loops-to-assumptions", "--no-pointer-primitive-check", "--object-bits", "16",
              "--slice-formula"]
ENV = dict(os.environ, CARGO_NET_OFFLINE="true", CARGO_TERM_COLOR="never")


def kani_lib_c():
    c = sorted(glob.glob(os.path.expanduser("~/.kani/kani-*/library/kani/kani_lib.c")))
    if not c:
        raise RuntimeError("kani_lib.c not found")
    return c[-1]


def _limits():
    resource.setrlimit(resource.RLIMIT_AS, (MEM_LIMIT, MEM_LIMIT))
    os.setsid()


def run(cmd, timeout=None, cwd=None, limit=True, env=None, stdin=None):
    """Run a command; returns (rc, stdout+stderr, seconds). rc=-9 on timeout."""
    t0 = time.time()
    try:
        p = subprocess.Popen(cmd, cwd=cwd, stdout=subprocess.PIPE, stderr=subprocess.STDOUT,
                             preexec_fn=_limits if limit else os.setsid, env=env or ENV, text=True,
                             stdin=subprocess.DEVNULL if stdin is None else stdin)
    except OSError as e:
        return 127, str(e), 0.0
    try:
        out, _ = p.communicate(timeout=timeout)
        return p.returncode, out, time.time() - t0
    except subprocess.TimeoutExpired:
        try:
            os.killpg(p.pid, 9)
        except OSError:
            pass
        out, _ = p.communicate()
        return -9, out or "", time.time() - t0


def tree_hash():
    """Hash of /repo's current working tree (sources that can affect the build)."""
    h = hashlib.sha256()
    for base, dirs, files in os.walk(REPO):
        dirs[:] = sorted(d for d in dirs if d not in (".git", "target"))
        for f in sorted(files):
            if f.endswith((".rs", ".toml", ".lock")):
                p = os.path.join(base, f)
                h.update(p.encode())
                with open(p, "rb") as fh:
                    h.update(fh.read())
    return h.hexdigest()[:16]


# ------------------------------------------------------------------------------------------
# harness / job descriptions

class Harness:
    """One #[kani::proof] function of the generated crate.
    engine: 'e1' (CBMC+CaDiCaL, everything symbolic) or 'e2' (SMT, float dataflow).
    skeletons: None or list of tuples of u32 -- concrete control skeletons fed through the
               extern "C" vk_sk(i) hook (one job per skeleton, one Kani codegen for all).
    allow_fail: regex on property descriptions of *implicit* (non vk:) properties that are
               expected to fail in this harness (must-panic idiom); they are left out of the query.
    expect_fail: list of vk: tags that must FAIL (calibration only)."""

    def __init__(self, name, engine="e1", unwind=None, skeletons=None, allow_fail=None,
                 clause="", expect_fail=(), stubs=False, timeout=None, witness=True, extra_cbmc=(), split=False, tolerant=True, allow_unwind=None):
        self.name = name
        self.engine = engine
        self.unwind = unwind
        self.skeletons = skeletons
        self.allow_fail = re.compile(allow_fail) if allow_fail else None
        self.clause = clause
        self.expect_fail = tuple(expect_fail)
        self.stubs = stubs
        self.timeout = timeout
        self.witness = witness
        self.extra_cbmc = tuple(extra_cbmc)
        self.allow_unwind = re.compile(allow_unwind) if allow_unwind else None   # unwinding assertions (by name) allowed to fail
        self.tolerant = tolerant    # hunt: compare f32 values with a relative tolerance (rounding-level differences are not violations)
        self.split = split          # e2 only: one SMT query per harness obligation (+ one for all implicit properties)


class JobResult:
    def __init__(self, harness, skeleton):
        self.harness = harness
        self.skeleton = skeleton
        self.status = "error"      # proved | failed | unknown | error
        self.detail = ""
        self.n_props = 0           # properties in the query
        self.n_vk = 0              # of which harness obligations (vk: tags)
        self.tags = []
        self.failed = []           # descriptions of failing properties
        self.how = ""              # symex | cadical | cvc5 | z3
        self.symex_s = 0.0
        self.solve_s = 0.0
        self.repair_sites = 0
        self.witness = None        # True if end-of-harness cover reachable
        self.unwind_ok = None

    def key(self):
        sk = "" if self.skeleton is None else "[" + ",".join(map(str, self.skeleton)) + "]"
        return self.harness.name + sk


# ------------------------------------------------------------------------------------------
# crate generation and Kani codegen

CARGO_TOML = """[package]
name = "{pkg}"
version = "0.0.0"
edition = "2021"

[lib]
doctest = false

[dependencies]
{rrtk_dep}
{extra_deps}
[workspace]

[lints.rust]
unexpected_cfgs = {{ level = "allow" }}
"""


class Crate:
    def __init__(self, prop_id, variant="main", features=("std", "devices", "dim_check_release"),
                 extra_deps="", repo=None, rrtk_dep=None):
        self.prop_id = prop_id
        self.pkg = "vk_%s_%s" % (prop_id.lower(), variant)
        self.dir = os.path.join(WORK, prop_id, variant)
        self.target = os.path.join(WORK, "target")
        self.features = features
        self.extra_deps = extra_deps
        self.repo = repo or REPO
        self.rrtk_dep = rrtk_dep
        self.meta = {}

    def write(self, lib_rs, extra_files=None):
        os.makedirs(os.path.join(self.dir, "src"), exist_ok=True)
        os.makedirs(os.path.join(self.dir, ".cargo"), exist_ok=True)
        feats = ", ".join('"%s"' % f for f in self.features)
        _write_if_changed(os.path.join(self.dir, "Cargo.toml"),
                          CARGO_TOML.format(pkg=self.pkg, extra_deps=self.extra_deps,
                                            rrtk_dep=self.rrtk_dep or 'rrtk = { path = "%s", default-features = false, features = [%s] }' % (self.repo, feats)))
        lock = os.path.join(self.repo, "Cargo.lock")
        if os.path.exists(lock):
            shutil.copy(lock, os.path.join(self.dir, "Cargo.lock"))
        _write_if_changed(os.path.join(self.dir, ".cargo", "config.toml"), "[net]\noffline = true\n")
        _write_if_changed(os.path.join(self.dir, "src", "lib.rs"), lib_rs)
        for rel, txt in (extra_files or {}).items():
            p = os.path.join(self.dir, rel)
            os.makedirs(os.path.dirname(p), exist_ok=True)
            _write_if_changed(p, txt)

    def build_dir(self):
        return os.path.join(self.target, "kani", "x86_64-unknown-linux-gnu", "debug", "build", self.pkg)

    def codegen(self, harness_names=None, stubbing=False, timeout=1800, exact=False):
        """cargo kani --only-codegen; returns dict pretty_name -> (mangled, symtab path, unwind)."""
        shutil.rmtree(self.build_dir(), ignore_errors=True)
        cmd = ["cargo", "kani", "--only-codegen", "-Z", "c-ffi", "--target-dir", self.target]
        if stubbing:
            cmd += ["-Z", "stubbing"]
        if exact:
            cmd += ["--exact"]
        for h in harness_names or []:
            cmd += ["--harness", h]
        rc, out, secs = run(cmd, timeout=timeout, cwd=self.dir, limit=False)
        metas = glob.glob(os.path.join(self.build_dir(), "*", "out", "*.kani-metadata.json"))
        if rc != 0 or not metas:
            raise BuildError("cargo kani --only-codegen failed (rc=%s)\n%s" % (rc, _tail(out, 60)))
        meta = {}
        for m in metas:
            for h in json.load(open(m))["proof_harnesses"]:
                short = h["pretty_name"].split("::")[-1]
                meta[short] = (h["mangled_name"], h["goto_file"], h["attributes"].get("unwind_value"), h["pretty_name"])
        self.meta = meta
        self.codegen_s = secs
        with _BASE_LOCK:
            for k in [k for k in _BASE if k[0] == self.pkg]:
                del _BASE[k]
        shutil.rmtree(os.path.join(self.dir, "base"), ignore_errors=True)
        return meta


class BuildError(Exception):
    pass


def _write_if_changed(path, txt):
    try:
        if open(path).read() == txt:
            return
    except OSError:
        pass
    with open(path, "w") as f:
        f.write(txt)


def _tail(s, n):
    return "\n".join(s.splitlines()[-n:])


# ------------------------------------------------------------------------------------------
# per-job pipeline

def unwind_flags(harness):
    if harness.unwind is None:
        return []
    return ["--unwind", str(harness.unwind), "--unwinding-assertions"]


def sk_c_source(skeleton):
    vals = ",".join(str(int(v)) + "u" for v in skeleton) or "0u"
    n = max(1, len(skeleton))
    return ("static const unsigned int VK_T[%d] = {%s};\n"
            "unsigned int vk_sk(unsigned int i) { return i < %du ? VK_T[i] : 0xFFFFu; }\n" % (n, vals, len(skeleton)))


_BASE_LOCK = threading.Lock()
_BASE = {}


def link_base(crate, harness):
    """Replay Kani's goto-cc / goto-instrument steps (flags copied from `cargo kani --verbose`) once per harness.
    The skeleton hook vk_sk is kept undefined (excluded from --generate-function-body) so that a per-job C stub
    can be linked in afterwards with a single goto-cc call."""
    key = (crate.pkg, harness.name)
    with _BASE_LOCK:
        ent = _BASE.get(key)
        if ent is None:
            ent = {"lock": threading.Lock(), "out": None, "err": None}
            _BASE[key] = ent
    with ent["lock"]:
        if ent["out"] or ent["err"]:
            if ent["err"]:
                raise BuildError(ent["err"])
            return ent["out"]
        mangled, symtab = crate.meta[harness.name][:2]
        d = os.path.join(crate.dir, "base")
        os.makedirs(d, exist_ok=True)
        out = os.path.join(d, harness.name + ".out")
        steps = [
            ["goto-cc", symtab, kani_lib_c(), "-o", out],
            ["goto-cc", out, "--function", mangled, "-o", out],
            ["goto-instrument", "--add-library", "--no-malloc-may-fail", out, out],
            ["goto-instrument", "--generate-function-body-options", "assert-false-assume-false",
             "--generate-function-body", "(?!vk_sk$).*", "--drop-unused-functions", out, out],
            ["goto-instrument", "--ensure-one-backedge-per-target", out, out],
        ]
        for st in steps:
            rc, o, _ = run(st, timeout=900)
            if rc != 0:
                ent["err"] = "link step failed: %s\n%s" % (" ".join(st[:3]), _tail(o, 20))
                raise BuildError(ent["err"])
        ent["out"] = out
        return out


def link_job(crate, harness, skeleton, jobdir):
    base = link_base(crate, harness)
    if skeleton is None:
        return base
    out = os.path.join(jobdir, "h.out")
    c = os.path.join(jobdir, "sk.c")
    with open(c, "w") as f:
        f.write(sk_c_source(skeleton))
    rc, o, _ = run(["goto-cc", base, c, "--function", crate.meta[harness.name][0], "-o", out], timeout=600)
    if rc != 0:
        raise BuildError("skeleton link failed:\n" + _tail(o, 20))
    return out


def list_properties(goto, harness):
    rc, out, _ = run(["cbmc"] + CBMC_FLAGS + list(harness.extra_cbmc) + unwind_flags(harness) + ["--show-properties", "--json-ui", goto], timeout=600)
    try:
        data = json.loads(out)
    except ValueError:
        raise BuildError("cbmc --show-properties unparsable:\n" + _tail(out, 20))
    props = []
    for item in data:
        if isinstance(item, dict) and "properties" in item:
            for p in item["properties"]:
                props.append({"name": p["name"], "class": p.get("class", ""),
                              "desc": p.get("description", ""),
                              "fn": p.get("sourceLocation", {}).get("function", ""),
                              "file": p.get("sourceLocation", {}).get("file", ""),
                              "line": p.get("sourceLocation", {}).get("line", "")})
    return props


_CONCAT = re.compile(r'concat! ?\("vk:", "([^"]+)"\)')
_VK = re.compile(r"vk:[A-Za-z0-9_.\-:]+")


def classify(props, harness):
    """-> (query props, cover props, skipped expected-fail props)"""
    query, covers, allowed = [], [], []
    for p in props:
        if p["class"] == "reachability_check" or "reachability_check" in p["name"]:
            continue
        if p["class"] == "cover":
            covers.append(p)
            continue
        p["desc"] = _CONCAT.sub(r"vk:\1", p["desc"])
        m = _VK.search(p["desc"])
        p["tag"] = m.group(0) if m else None
        if p["tag"] is None and harness.allow_fail and harness.allow_fail.search(p["desc"] + " @" + p["fn"]):
            allowed.append(p)
            continue
        query.append(p)
    return query, covers, allowed


def cbmc_sat(goto, harness, prop_names, timeout, trace=False):
    """Engine E1: CBMC + CaDiCaL on the listed properties. -> (statuses dict name->status, secs, raw)"""
    cmd = ["cbmc"] + CBMC_FLAGS + list(harness.extra_cbmc) + unwind_flags(harness) + ["--sat-solver", "cadical", "--json-ui"]
    for n in prop_names:
        cmd += ["--property", n]
    cmd.append(goto)
    with _SYMEX_SLOTS:
        rc, out, secs = run(cmd, timeout=timeout)
    if rc == -9:
        return None, secs, "timeout"
    st = {}
    try:
        data = json.loads(out)
    except ValueError:
        return None, secs, _tail(out, 15)
    for item in data:
        if isinstance(item, dict) and "result" in item:
            for r in item["result"]:
                st[r["property"]] = r["status"]
    if not st:
        return None, secs, _tail(out, 15)
    return st, secs, ""


def smt_dump(goto, harness, prop_names, outfile, timeout):
    cmd = ["cbmc"] + CBMC_FLAGS + list(harness.extra_cbmc) + unwind_flags(harness)
    for n in prop_names:
        cmd += ["--property", n]
    cmd += ["--smt2", "--outfile", outfile, "--verbosity", "8", goto]
    if os.path.exists(outfile):
        os.remove(outfile)
    with _SYMEX_SLOTS:
        rc, out, secs = run(cmd, timeout=timeout)
    if rc == -9:
        return "timeout", secs, 0
    ran = re.search(r"Generated \d+ VCC\(s\), (\d+) remaining after simplification", out)
    if not ran or rc != 0:
        return "error:symex did not complete (rc=%s): %s" % (rc, _tail(out, 6)), secs, 0
    if not os.path.exists(outfile) or os.path.getsize(outfile) == 0 or "(check-sat)" not in open(outfile).read():
        # no formula left: only believed when CBMC itself says every VCC was discharged during symex
        if ran.group(1) == "0":
            return "symex", secs, 0
        return "error:" + _tail(out, 8), secs, 0
    txt = open(outfile).read()
    txt = txt[:txt.index("(check-sat)")] + "(check-sat)\n(exit)\n"
    txt, sites = repair_overflow.repair(txt)
    txt = _drop_zero_width_decls(txt)
    with open(outfile, "w") as f:
        f.write(txt)
    return "query", secs, sites


_ZW = re.compile(r"^\(declare-fun (\|[^|]*\||\S+) \(\) \(_ BitVec 0\)\)\n", re.M)


def _drop_zero_width_decls(txt):
    """CBMC declares zero-sized Rust globals as (_ BitVec 0), which SMT-LIB forbids. Such a declaration is dropped when
    the symbol is not used anywhere else; otherwise it is kept and the solvers' (error makes the query inconclusive."""
    for m in list(_ZW.finditer(txt)):
        if txt.count(m.group(1)) == 1:
            txt = txt.replace(m.group(0), "", 1)
    return txt


SOLVERS = [("cvc5", ["cvc5", "--lang", "smt2"]), ("z3", ["z3-new"])]


_SOLVE_SLOTS = threading.BoundedSemaphore(max(1, NCPU // 2))   # each smt_solve runs two solver processes
_SYMEX_SLOTS = threading.BoundedSemaphore(NCPU)


def smt_solve(path, timeout, grace=3.0):
    with _SOLVE_SLOTS:
        return _smt_solve(path, timeout, grace)


def _smt_solve(path, timeout, grace=3.0):
    """Run cvc5 and z3 in parallel on the same file. First definite answer wins; the other is given
    `grace` seconds and a disagreement makes the result 'disagree'. -> (verdict, solver, secs)"""
    procs = {}
    t0 = time.time()
    for name, cmd in SOLVERS:
        procs[name] = subprocess.Popen(cmd + [path], stdout=subprocess.PIPE, stderr=subprocess.STDOUT,
                                       text=True, preexec_fn=_limits, env=ENV)
    answers = {}
    first = None
    deadline = t0 + timeout
    while procs and time.time() < deadline:
        for name in list(procs):
            p = procs[name]
            if p.poll() is not None:
                out = p.stdout.read()
                answers[name] = _smt_answer(out)
                del procs[name]
                if first is None and answers[name] in ("sat", "unsat"):
                    first = (name, time.time() - t0)
                    deadline = min(deadline, time.time() + grace)
        if first and not procs:
            break
        time.sleep(0.02)
    for p in procs.values():
        try:
            os.killpg(p.pid, 9)
        except OSError:
            pass
        p.wait()
    secs = time.time() - t0
    definite = {a for a in answers.values() if a in ("sat", "unsat")}
    if len(definite) == 2:
        return "disagree", "cvc5+z3", secs
    if first:
        return answers[first[0]], first[0], first[1]
    if any(a == "error" for a in answers.values()):
        return "error", ",".join(answers), secs
    return "unknown", "", secs


def _smt_answer(out):
    lines = [l.strip() for l in out.splitlines() if l.strip()]
    for l in lines:
        if l.startswith("(error"):
            return "error"
        if l in ("sat", "unsat", "unknown"):
            return l
    return "unknown"


def run_job(crate, harness, skeleton, jobdir, budget, want_witness=True):
    """Decide all obligations of one (harness, skeleton) job."""
    r = JobResult(harness, skeleton)
    os.makedirs(jobdir, exist_ok=True)
    try:
        goto = link_job(crate, harness, skeleton, jobdir)
        props = list_properties(goto, harness)
    except BuildError as e:
        r.detail = str(e)
        return r
    query, covers, allowed = classify(props, harness)
    r.n_props = len(query)
    r.tags = sorted({p["tag"] for p in query if p["tag"]})
    r.n_vk = sum(1 for p in query if p["tag"])
    names = [p["name"] for p in query]
    by_name = {p["name"]: p for p in query}
    if not names:
        r.detail = "no properties in harness"
        return r
    to = harness.timeout or budget
    if harness.engine == "e1":
        # all properties in one CBMC run (unwinding assertions only exist at symex time, so no --property filter)
        st, secs, raw = cbmc_sat(goto, harness, [], to)
        r.symex_s = secs
        r.how = "cadical"
        if st is None:
            r.status = "unknown" if raw == "timeout" else "error"
            r.detail = raw
        else:
            skip = {p["name"] for p in covers} | {p["name"] for p in allowed}
            bad, undet = [], []
            for n, v in st.items():
                if n in skip or "reachability_check" in n:
                    continue
                if ".unwind." in n and harness.allow_unwind and harness.allow_unwind.search(n):
                    continue
                if v == "FAILURE":
                    bad.append(n)
                elif v != "SUCCESS":
                    undet.append(n)     # CBMC reports UNKNOWN for checks it could not decide after an earlier failure
            missing = [n for n in names if n not in st]
            r.failed = [(_pdesc(by_name[n]) if n in by_name else n) + " => " + str(st.get(n)) for n in bad] + [n + " => NOT REPORTED" for n in missing]
            if bad or missing:
                r.status = "failed"
            elif undet:
                r.status = "unknown"
                r.detail = "%d properties undetermined, e.g. %s" % (len(undet), undet[0])
            else:
                r.status = "proved"
            ends = [p for p in covers if "vk_end" in p["desc"]]
            if harness.witness and ends and r.status == "proved":
                r.witness = any(st.get(p["name"]) in ("FAILURE", "SATISFIED") for p in ends)
                if not r.witness:
                    r.status = "error"
                    r.detail = "vacuous: end of harness unreachable"
    else:
        groups = [names]
        if harness.split:
            implicit = [p["name"] for p in query if not p["tag"]]
            groups = [[p["name"]] for p in query if p["tag"]] + ([implicit] if implicit else [])
        os.makedirs(jobdir, exist_ok=True)
        verdicts = []

        def one(gi, g):
            if harness.split and len(g) > 1:
                # implicit properties (integer / pointer / panic reachability): CaDiCaL; unwinding assertions are
                # still part of every SMT query of the obligation groups
                st, secs, raw = cbmc_sat(goto, harness, g, to)
                if st is None:
                    return ("unknown" if raw == "timeout" else "error", "cadical", secs, 0.0, 0, "implicit group: " + raw)
                bad = [n for n in g if st.get(n) != "SUCCESS"]
                if bad:
                    return ("failed", "cadical", secs, 0.0, 0, "; ".join(_pdesc(by_name[n]) + " => " + str(st.get(n)) for n in bad[:4]))
                return ("proved", "cadical", secs, 0.0, 0, "")
            q = os.path.join(jobdir, "q%d.smt2" % gi)
            kind, secs, sites = smt_dump(goto, harness, g, q, to)
            if kind == "symex":
                return ("proved", "symex", secs, 0.0, sites, "")
            if kind == "timeout":
                return ("unknown", "", secs, 0.0, sites, "symex timeout")
            if kind.startswith("error"):
                return ("error", "", secs, 0.0, sites, kind)
            v, solver, ssecs = smt_solve(q, to)
            if v == "unsat":
                return ("proved", solver, secs, ssecs, sites, "")
            if v == "sat":
                return ("failed", solver, secs, ssecs, sites, "smt sat (%s)" % solver)
            if v in ("disagree", "error"):
                return ("error", solver, secs, ssecs, sites, "solver " + v)
            return ("unknown", solver, secs, ssecs, sites, "smt timeout/unknown after %.0fs" % ssecs)

        if len(groups) == 1:
            verdicts = [one(0, groups[0])]
        else:
            with cf.ThreadPoolExecutor(max_workers=min(len(groups), max(2, NCPU // 2))) as ex:
                verdicts = list(ex.map(lambda a: one(*a), enumerate(groups)))
        r.symex_s = sum(v[2] for v in verdicts)
        r.solve_s = sum(v[3] for v in verdicts)
        r.repair_sites = sum(v[4] for v in verdicts)
        hows = sorted({v[1] for v in verdicts if v[1]})
        r.how = "+".join(hows) if hows else "symex"
        order = {"failed": 0, "error": 1, "unknown": 2, "proved": 3}
        worst = min(verdicts, key=lambda v: order[v[0]])
        r.status = worst[0]
        if r.status != "proved":
            bad_groups = [g for g, v in zip(groups, verdicts) if v[0] != "proved"]
            r.detail = worst[5]
            if harness.split:
                r.failed = [(_pdesc(by_name[g[0]]) if len(g) == 1 else "%d implicit properties (panic freedom, overflow, pointer checks)" % len(g)) + " => " + v[0]
                            for g, v in zip(groups, verdicts) if v[0] != "proved"]
    # vacuity witness: the end-of-harness cover must be reachable (CaDiCaL)
    if harness.witness and want_witness and r.status == "proved" and harness.engine != "e1":
        ends = [p for p in covers if "vk_end" in p["desc"]]
        if not ends:
            r.witness = None
        else:
            st, secs, raw = cbmc_sat(goto, harness, [p["name"] for p in ends], max(to, 120))
            if st is None:
                r.witness = None
                r.detail += " witness:" + raw
            else:
                r.witness = any(st.get(p["name"]) in ("FAILURE", "SATISFIED") for p in ends)
                if not r.witness:
                    r.status = "error"
                    r.detail = "vacuous: end of harness unreachable"
    if not os.environ.get("VK_KEEP"):
        shutil.rmtree(jobdir, ignore_errors=True)
    return r


def _pdesc(p):
    return "%s [%s @%s:%s]" % (p["desc"], p["name"], os.path.basename(p["file"] or "?"), p["line"])


def run_jobs(crate, harnesses, budget, progress=True, order_seed=0, witness_every=1):
    """witness_every: the (separate, e2-only) vacuity-witness run is made for every k-th skeleton job of a harness
    (always for the first one and for harnesses without skeletons); e1 jobs get their witness for free."""
    jobs = []
    for h in harnesses:
        if h.name not in crate.meta:
            raise BuildError("harness %s missing from Kani metadata" % h.name)
        if h.skeletons is None:
            jobs.append((h, None, True))
        else:
            for k, s in enumerate(h.skeletons):
                jobs.append((h, tuple(s), (k + order_seed) % witness_every == 0 or k == 0))
    results = []
    lock = threading.Lock()
    done = [0]
    runroot = os.path.join(crate.dir, "jobs")
    shutil.rmtree(runroot, ignore_errors=True)

    bad_count = {}
    skip_after = int(os.environ.get("VK_SKIP_AFTER", "6"))

    def work(i, h, s, w):
        jd = os.path.join(runroot, "%05d" % i)
        if bad_count.get(h.name, 0) >= skip_after:
            # this harness already has several undecided / failing jobs: the rest would only repeat long timeouts
            r = JobResult(h, s)
            r.status = "unknown"
            r.detail = "skipped: %d jobs of this harness already failed or timed out" % bad_count[h.name]
            with lock:
                done[0] += 1
            return r
        try:
            r = run_job(crate, h, s, jd, budget, want_witness=w)
        except Exception as e:  # noqa
            r = JobResult(h, s)
            r.detail = "exception: %r" % (e,)
        with lock:
            done[0] += 1
            if r.status != "proved":
                bad_count[h.name] = bad_count.get(h.name, 0) + 1
            if progress and (r.status != "proved" or done[0] % 25 == 0 or done[0] == len(jobs)):
                sys.stderr.write("  [%d/%d] %s: %s %s %s\n" % (done[0], len(jobs), r.key(), r.status, r.how, r.detail[:200]))
        return r

    with cf.ThreadPoolExecutor(max_workers=NCPU) as ex:
        futs = [ex.submit(work, i, h, s, w) for i, (h, s, w) in enumerate(jobs)]
        for f in futs:
            results.append(f.result())
    if not os.environ.get("VK_KEEP"):
        shutil.rmtree(runroot, ignore_errors=True)
    return results
