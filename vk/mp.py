"""Shared Rust text for the motion-profile checks C06 / C07: symbolic profile through the REAL constructor,
private parts read back through the cfg(kani) hook, and the spec trees of the accessors."""

RUST = r'''
    pub fn ord(p: MotionProfilePiece) -> u8 {
        match p { MotionProfilePiece::BeforeStart => 0, MotionProfilePiece::InitialAcceleration => 1, MotionProfilePiece::ConstantVelocity => 2,
                  MotionProfilePiece::EndAcceleration => 3, MotionProfilePiece::Complete => 4 }
    }
    pub struct In { pub p0: f32, pub v0: f32, pub a0: f32, pub p1: f32, pub v1: f32, pub a1: f32, pub mv: f32, pub ma: f32 }
    pub fn sym_in() -> In { In { p0: sym_f32(), v0: sym_f32(), a0: sym_f32(), p1: sym_f32(), v1: sym_f32(), a1: sym_f32(), mv: sym_f32(), ma: sym_f32() } }
    /// profile through the real constructor (paths on which `new` panics are cut: the constructor did not accept)
    pub fn build(i: &In) -> MotionProfile {
        MotionProfile::new(State::new_raw(i.p0, i.v0, i.a0), State::new_raw(i.p1, i.v1, i.a1),
                           Quantity::new(i.mv, MILLIMETER_PER_SECOND), Quantity::new(i.ma, MILLIMETER_PER_SECOND_SQUARED))
    }
    pub struct Parts { pub sp: f32, pub sv: f32, pub t1: i64, pub t2: i64, pub t3: i64, pub ma: f32, pub end: Command }
    pub fn parts(mp: &MotionProfile) -> Parts {
        let (sp, sv, t1, t2, t3, ma, end) = mp.vk_parts();
        Parts { sp: sp.value, sv: sv.value, t1: t1.0, t2: t2.0, t3: t3.0, ma: ma.value, end }
    }
    /// phase boundaries small enough that the accessors' own i64 arithmetic cannot overflow (the property's ranges give
    /// durations below 2^52 ns; beyond 2^60 rrtk's checked arithmetic may panic: outside the claim)
    pub fn sane(p: &Parts) -> bool { let b = 1i64 << 60; p.t1 < b && p.t2 < b && p.t3 < b && p.t1 > -b && p.t2 > -b && p.t3 > -b }
    // ---- spec trees of the accessors, in the documented closed forms (operator order as written in the formulas)
    pub fn spec_vel(p: &Parts, t: i64) -> Option<f32> {
        if t < 0 { None }
        else if t < p.t1 { Some(p.ma * secs(t) + p.sv) }
        else if t < p.t2 { Some(p.ma * secs(p.t1) + p.sv) }
        else if t < p.t3 { Some(p.ma * secs(p.t1 + p.t2 - t) + p.sv) }
        else { match p.end { Command::Position(_) => Some(0.0), Command::Velocity(v) => Some(v), Command::Acceleration(_) => None } }
    }
    pub fn spec_pos(p: &Parts, t: i64) -> Option<f32> {
        if t < 0 { None }
        else if t < p.t1 { let ts = secs(t); Some(0.5 * p.ma * ts * ts + p.sv * ts + p.sp) }
        else if t < p.t2 { Some(p.ma * (secs(p.t1) * secs(-p.t1 / 2 + t)) + p.sv * secs(t) + p.sp) }
        else if t < p.t3 {
            Some(p.ma * (secs(p.t1) * secs(-p.t1 / 2 + p.t2)) - 0.5 * p.ma * (secs(t - p.t2) * secs(t - 2 * p.t1 - p.t2)) + p.sv * secs(t) + p.sp)
        }
        else { match p.end { Command::Position(x) => Some(x), _ => None } }
    }
    pub fn spec_acc(p: &Parts, t: i64) -> Option<f32> {
        if t < 0 { None }
        else if t < p.t1 { Some(p.ma) }
        else if t < p.t2 { Some(0.0) }
        else if t < p.t3 { Some(-p.ma) }
        else { match p.end { Command::Acceleration(a) => Some(a), _ => Some(0.0) } }
    }
    pub fn opt_same(a: Option<Quantity>, b: Option<f32>, unit: Unit) -> bool {
        match (a, b) { (None, None) => true, (Some(q), Some(x)) => same(q.value, x) && q.unit == unit, _ => false }
    }
'''
