"""Runs one property: generate crate(s), Kani codegen, decide every job, hunt/replay failures,
write evidence, print VIOLATION / KNOWN-FINDING lines, return the exit code."""
import json
import os
import re
import sys
import time

from . import core, driver


def _budget(ctx):
    return int(os.environ.get("VK_BUDGET", "180" if ctx.quick else "600"))


def run_property(mod, ctx, only=None, do_hunt=True):
    t0 = time.time()
    pid = ctx.prop_id
    from . import calib
    if calib.main() != 0:
        sys.stderr.write("[%s] calibration suite failed: no verdict is believed\n" % pid)
        return 2
    spec = mod.spec(ctx)
    known = driver.load_known()
    all_results = []
    crates = []
    build_err = None
    codegen_s = 0.0
    for part in spec["crates"]:
        crate = core.Crate(pid, part.get("variant", "main"),
                           features=part.get("features", ("std", "devices", "dim_check_release")),
                           extra_deps=part.get("extra_deps", ""), rrtk_dep=part.get("rrtk_dep"))
        hs = part["harnesses"]
        if only:
            hs = [h for h in hs if re.search(only, h.name)]
            if not hs:
                continue
        lib = driver.prelude(driver.SK_FFI) + "\n" + part["rust"]
        crate.write(lib, part.get("extra_files"))
        crate.part = part
        try:
            crate.codegen([h.name for h in hs] if only else None, stubbing=part.get("stubbing", False))
            codegen_s += crate.codegen_s
            sys.stderr.write("[%s] codegen %s: %d harnesses in %.0fs\n" % (pid, crate.pkg, len(crate.meta), crate.codegen_s))
            missing = [h.name for h in hs if h.name not in crate.meta]
            if missing:
                raise core.BuildError("harnesses missing after codegen: %s" % missing[:5])
            res = core.run_jobs(crate, hs, _budget(ctx), order_seed=ctx.seed, witness_every=8 if ctx.quick else 1)
        except core.BuildError as e:
            build_err = str(e)
            sys.stderr.write("[%s] BUILD ERROR: %s\n" % (pid, build_err))
            break
        for r in res:
            r.crate = crate
        all_results += res
        crates.append(crate)

    lemma_results = run_lemmas(spec, ctx) if (not only and not build_err) else []
    proved = [r for r in all_results if r.status == "proved"]
    bad = [r for r in all_results if r.status != "proved"]
    violations, known_hits, inconclusive = [], [], []
    if bad and not build_err:
        from . import hunt
        kf = [k for k in known.get("findings", []) if k["property"] == pid]
        max_hunts = int(os.environ.get("VK_MAX_HUNTS", "4"))
        hunted = 0
        for r in bad:
            k = _match_known(kf, r)
            if k is not None:
                known_hits.append((r, k))
                continue
            if r.detail.startswith("skipped:"):
                inconclusive.append((r, r.detail))
                continue
            if r.status == "error" and not r.failed and "smt" not in r.detail:
                inconclusive.append((r, r.detail))
                continue
            if not do_hunt or hunted >= max_hunts:
                inconclusive.append((r, "not hunted: " + r.detail))
                continue
            hunted += 1
            out = hunt.hunt(r.crate, r, ctx)
            if out["verdict"] == "violation":
                k = _match_known(kf, r, out)
                if k is not None:
                    known_hits.append((r, k))
                else:
                    violations.append((r, out))
            else:
                inconclusive.append((r, out.get("why", "")))
    if spec.get("cleanup"):
        try:
            spec["cleanup"]()
        except Exception as e:  # noqa
            sys.stderr.write("cleanup failed: %r\n" % (e,))
    wall = time.time() - t0
    for r, k in known_hits:
        print("KNOWN-FINDING: property=%s %s (%s)" % (pid, k["what"], r.key()))
    for r, out in violations:
        print("VIOLATION property=%s replay=%s" % (pid, out["replay"]))
        sys.stderr.write("  failing: %s\n" % "; ".join(out.get("failed", [])[:4]))
        rel = out.get("release_like_fails")
        sys.stderr.write("  replayed natively: fails in the dev profile (the one Kani models); release-like profile: %s\n"
                         % ("fails too" if rel else ("does not fail" if rel is False else "not run / did not build")))
    for r, why in inconclusive:
        sys.stderr.write("[%s] INCONCLUSIVE %s: %s | %s\n" % (pid, r.key(), why, "; ".join(r.failed[:3])))
    problems = spec.get("problems", [])
    for pr in problems:
        sys.stderr.write("[%s] GENERATOR PROBLEM (not checkable): %s\n" % (pid, pr))
    if build_err:
        sys.stderr.write("[%s] inconclusive: build error\n" % pid)
    lemma_bad = [l for l in lemma_results if l["verdict"] != "unsat"]
    for l in lemma_bad:
        sys.stderr.write("[%s] R-LEMMA NOT PROVED %s: %s\n" % (pid, l["name"], l["verdict"]))
    if not only:
        write_evidence(pid, ctx, spec, all_results, known_hits, violations, inconclusive, wall, codegen_s, build_err, lemma_results)
    n_tags = sum(r.n_vk for r in proved)
    sys.stderr.write("[%s] %s: %d/%d jobs proved, %d obligations, %d violations, %d known, %d inconclusive, %.0fs\n"
                     % (pid, ctx.tier, len(proved), len(all_results), n_tags, len(violations), len(known_hits), len(inconclusive), wall))
    if violations:
        return 1
    if inconclusive or build_err or not all_results or lemma_bad or problems:
        return 2
    return 0


def run_lemmas(spec, ctx):
    """(R) lemmas: polynomial facts about the spec trees over the reals; decided by z3 (nlsat) || cvc5."""
    out = []
    lemmas = spec.get("lemmas", [])
    if not lemmas:
        return out
    d = os.path.join(core.WORK, ctx.prop_id, "lemmas")
    os.makedirs(d, exist_ok=True)
    to = 60 if ctx.quick else 300

    def one(l):
        p = os.path.join(d, re.sub(r"[^A-Za-z0-9_.]", "_", l["name"]) + ".smt2")
        with open(p, "w") as f:
            f.write(l["smt"])
        v, solver, secs = core.smt_solve(p, to)
        return dict(l, verdict=v, solver=solver, secs=secs)
    import concurrent.futures as cf
    with cf.ThreadPoolExecutor(max_workers=core.NCPU) as ex:
        out = list(ex.map(one, lemmas))
    return out


def _match_known(kf, r, out=None):
    descs = list(r.failed) + (out.get("failed", []) if out else [])
    for k in kf:
        if k["harness"] != r.harness.name:
            continue
        if "skeleton" in k and list(k["skeleton"]) != list(r.skeleton or []):
            continue
        pat = re.compile(k.get("match", "."))
        if descs and all(pat.search(d) for d in descs):
            return k
    return None


def write_evidence(pid, ctx, spec, results, known_hits, violations, inconclusive, wall, codegen_s, build_err, lemma_results=()):
    proved = [r for r in results if r.status == "proved"]
    by_how = {}
    for r in proved:
        by_how[r.how or "?"] = by_how.get(r.how or "?", 0) + 1
    obligations = sum(r.n_props for r in results)
    discharged = sum(r.n_props for r in proved)
    tags = sorted({t for r in results for t in r.tags})
    nontrivial = sum(1 for r in proved if r.how != "symex")
    samples = []
    seen = set()
    for r in results:
        if r.harness.name in seen:
            continue
        seen.add(r.harness.name)
        samples.append({"job": r.key(), "clause": r.harness.clause, "engine": r.harness.engine,
                        "unwind": r.harness.unwind, "status": r.status, "decided_by": r.how,
                        "properties_in_query": r.n_props, "obligation_tags": r.tags[:12],
                        "symex_s": round(r.symex_s, 2), "solve_s": round(r.solve_s, 2)})
        if len(samples) >= 40:
            break
    ev = {
        "property_id": pid,
        "tier": ctx.tier,
        "seed": ctx.seed,
        "level": "model_checking",
        "coverage": {
            "evaluations": len(results),
            "distinct_nontrivial": nontrivial,
            "rule": ("one evaluation = one solver job: a generated #[kani::proof] harness (all numeric payloads symbolic) "
                     "x one concrete control skeleton, symbolically executed by CBMC over the compiled rrtk code and decided by "
                     "CaDiCaL (e1) or cvc5||z3 on the SMT-LIB2 dump (e2) for ALL values within the stated bounds; jobs are distinct by "
                     "(harness, skeleton); non-trivial = the verdict needed the solver (not discharged by symex simplification alone). "
                     + spec.get("rule", "")),
            "samples": samples,
            "exhaustive": bool(spec.get("exhaustive", True)) and not inconclusive and not build_err,
            "obligations": obligations,
            "discharged": discharged,
            "harness_obligations_in_queries": sum(r.n_vk for r in results),
            "implicit_properties_in_queries": obligations - sum(r.n_vk for r in results),
            "obligations_note": "obligations = properties handed to the solver summed over jobs: the harness obligations (vk: tags; a job's program contains the arms of "
                                "all skeletons, most of them unreachable in that job) plus the implicit ones (every panic, overflow, bounds and pointer check of the compiled code, std included)",
            "obligation_tags": tags,
            "jobs_by_decider": by_how,
            "checker_cmd": "cargo kani --only-codegen; goto-cc; goto-instrument; cbmc [--smt2]; cvc5 || z3-new (see vk/core.py)",
            "trusted_base": ["rustc/Kani 0.68 MIR->goto", "CBMC 6.11 symex + float_bv", "overflow_result SMT repair (calibrated)",
                             "CaDiCaL", "cvc5 1.0 / z3 (cross-checked)"] + spec.get("trusted", []),
            "functions_encoded": spec.get("functions", []),
            "bounds": spec.get("bounds", {}),
            "outside_claim": spec.get("not_decided", []),
            "generator_problems": spec.get("problems", []),
            "skeleton_space": spec.get("skeleton_space", {}),
            "slowest_jobs": [{"job": r.key(), "symex_s": round(r.symex_s, 1), "solve_s": round(r.solve_s, 1), "budget_s": r.harness.timeout or _budget(ctx)}
                             for r in sorted(results, key=lambda r: -(r.symex_s + r.solve_s))[:5]],
            "solver_time_s": round(sum(r.solve_s for r in results), 2),
            "symex_time_s": round(sum(r.symex_s for r in results), 2),
            "codegen_time_s": round(codegen_s, 1),
            "smt_overflow_repair_sites": sum(r.repair_sites for r in results),
            "vacuity_witnesses_reachable": sum(1 for r in results if r.witness),
            "vacuity_witness_policy": "every e1 job; e2: every job of harnesses without skeletons, every 8th skeleton job in quick, all in thorough",
            "repo_tree_hash": core.tree_hash(),
            "known_findings_hit": [{"job": r.key(), "what": k["what"]} for r, k in known_hits],
            "inconclusive": [{"job": r.key(), "why": why[:300]} for r, why in inconclusive][:20],
            "real_arithmetic_lemmas": [{"name": l["name"], "verdict": l["verdict"], "solver": l["solver"], "secs": round(l["secs"], 2), "note": l.get("note", "")} for l in lemma_results],
            "violations_found": [{"job": r.key(), "replay": o["replay"], "failed": o.get("failed", [])[:5],
                                  "replayed": "dev profile: fails", "release_like_profile_fails": o.get("release_like_fails")} for r, o in violations],
        },
        "assumptions": spec.get("assumptions", []),
        "wall_s": round(wall, 1),
        "violations": len(violations),
    }
    if build_err:
        ev["coverage"]["build_error"] = build_err[-1500:]
    # schema minimums: keep honest even when nothing ran
    ev["coverage"]["evaluations"] = max(ev["coverage"]["evaluations"], 0)
    os.makedirs(os.path.join(core.ROOT, "evidence"), exist_ok=True)
    with open(os.path.join(core.ROOT, "evidence", pid + ".json"), "w") as f:
        json.dump(ev, f, indent=1)
