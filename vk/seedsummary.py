"""Prints a markdown table of the seeded changes under /verif/seeded and whether the property's check caught them."""
import glob
import json
import os

ROOT = os.path.dirname(os.path.dirname(os.path.abspath(__file__)))
rows = []
for d in sorted(glob.glob(os.path.join(ROOT, "seeded", "*"))):
    if os.path.basename(d).startswith("control_"):
        continue
    try:
        m = json.load(open(os.path.join(d, "meta.json")))
    except Exception:
        continue
    e = m.get("evaluation", {})
    viol = "; ".join(v.split("replay=")[-1].split("/")[-1] for v in e.get("check_violation_lines", [])[:2])
    ok = all(e.get(k) for k in ("patch_applies", "suite_passes_with_patch", "demo_fails_with_patch", "demo_passes_without_patch"))
    rows.append("| %s | %s | %s | %s | %s | %s |" % (os.path.basename(d), m.get("property", e.get("property", "?")), (m.get("summary", "") or "").replace("|", "/")[:160],
                                             "yes" if ok else "NO", "caught (exit 1)" if e.get("detected") else "MISSED (exit %s)" % e.get("check_exit"), viol[:80]))
print("| seeded change | property | what it does | confirmed (applies, suite passes, demo fails/passes) | check result | failing job(s) |")
print("|---|---|---|---|---|---|")
print("\n".join(rows))
