"""C20 Device wrappers relay data between getters/settables and terminals unaltered."""
import itertools

from .. import dev
from ..core import Harness

RUST = r'''
#[cfg(kani)]
mod c20 {
    use super::*;
    use rrtk::devices::wrappers::*;
''' + dev.RUST + r'''
    fn same_td(a: TerminalData, b: TerminalData) -> bool {
        a.time == b.time
            && match (a.state, b.state) { (None, None) => true, (Some(x), Some(y)) => same_state(x, y), _ => false }
            && match (a.command, b.command) { (None, None) => true, (Some(x), Some(y)) => same_cmd(x, y), _ => false }
    }
    // ---- actuator wrapper: hands the inner settable exactly the combined data its terminal sees, then updates it
    // skeleton: [terminal has state, terminal has command, inner rejects the set, inner update fails]
    #[kani::proof]
    #[kani::unwind(4)]
    fn c20_actuator() {
        let ds: Option<Datum<State>> = if sk(0) == 1 { Some(Datum::new(Time(kani::any()), sym_state())) } else { None };
        let dc: Option<Datum<Command>> = if sk(1) == 1 { Some(Datum::new(Time(kani::any()), sym_cmd())) } else { None };
        let (rej, uerr): (Option<E>, Option<E>) = (if sk(2) == 1 { Some(kani::any()) } else { None }, if sk(3) == 1 { Some(kani::any()) } else { None });
        // the wrapper owns its inner settable: configure it through the terminal-independent public fields before wrapping
        let mut inner = Sink::<TerminalData>::new();
        inner.reject = rej;
        inner.update_error = uerr;
        let mut w = ActuatorWrapper::<Sink<TerminalData>, E>::new(inner);
        let t = w.get_terminal();
        if let Some(d) = ds { t.borrow_mut().set(d).unwrap(); }
        if let Some(d) = dc { t.borrow_mut().set(d).unwrap(); }
        let res = w.update();
        let sink: &Sink<TerminalData> = w.vk_inner();
        let sees = ds.is_some() || dc.is_some();
        if !sees {
            vk_assert!(sink.sets == 0, "C20.actuator.nothing_handed_over_when_terminal_sees_nothing");
            vk_assert!(sink.updates == 1, "C20.actuator.inner_updated");
            vk_assert!(res == match uerr { Some(e) => Err(Error::Other(e)), None => Ok(()) }, "C20.actuator.inner_update_error_propagated");
        } else {
            let time = match ds { Some(d) => d.time, None => dc.unwrap().time };
            let want = TerminalData { time, state: ds.map(|d| d.value), command: dc.map(|d| d.value) };
            vk_assert!(sink.sets == 1, "C20.actuator.set_called_exactly_once");
            match rej {
                Some(e) => {
                    vk_assert!(res == Err(Error::Other(e)), "C20.actuator.set_error_propagated");
                    vk_assert!(sink.updates == 0, "C20.actuator.no_update_after_failed_set");
                }
                None => {
                    vk_assert!(match sink.got { Some(g) => same_td(g, want), None => false }, "C20.actuator.inner_receives_exactly_the_combined_data");
                    vk_assert!(sink.updates == 1, "C20.actuator.inner_updated_after_set");
                    vk_assert!(sink.sets_seen_at_update == 1, "C20.actuator.set_happens_before_the_inner_update");
                    vk_assert!(res == match uerr { Some(e) => Err(Error::Other(e)), None => Ok(()) }, "C20.actuator.inner_update_error_propagated");
                }
            }
        }
        vk_end!();
    }
    // ---- encoder wrapper: updates its inner getter and writes its present state, unchanged, into the terminal
    pub struct Enc { pub ev: Ev<State>, pub upd_err: Option<E>, pub updates: u32 }
    impl Getter<State, E> for Enc {
        // like a sampling encoder: before its first update it has no reading at all
        fn get(&self) -> Output<State, E> { if self.updates == 0 { return Ok(None); } match self.ev { Ev::Some(t, v) => Ok(Some(Datum::new(Time(t), v))), Ev::None => Ok(None), Ev::Err(e) => Err(Error::Other(e)) } }
    }
    impl Updatable<E> for Enc {
        fn update(&mut self) -> NothingOrError<E> { self.updates += 1; match self.upd_err { Some(e) => Err(Error::Other(e)), None => Ok(()) } }
    }
    // skeleton: [inner output kind 0 present / 1 absent / 2 error, inner update fails, terminal already holds a state]
    #[kani::proof]
    #[kani::unwind(4)]
    fn c20_encoder() {
        let ev = match sk(0) { 0 => Ev::Some(kani::any(), sym_state()), 1 => Ev::None, _ => Ev::Err(kani::any()) };
        let uerr: Option<E> = if sk(1) == 1 { Some(kani::any()) } else { None };
        let mut w = GetterStateDeviceWrapper::<Enc, E>::new(Enc { ev, upd_err: uerr, updates: 0 });
        let t = w.get_terminal();
        let before = put_state(t, sk(2) == 1);
        let res = w.update();
        let after = held_state(t);
        match (uerr, ev) {
            (Some(e), _) => { vk_assert!(res == Err(Error::Other(e)) && sds(after, before), "C20.encoder.inner_update_error_propagated_terminal_untouched"); }
            (None, Ev::Err(e)) => { vk_assert!(res == Err(Error::Other(e)) && sds(after, before), "C20.encoder.inner_get_error_propagated_terminal_untouched"); }
            (None, Ev::None) => { vk_assert!(res == Ok(()) && sds(after, before), "C20.encoder.absent_leaves_terminal_untouched"); }
            (None, Ev::Some(tm, s)) => { vk_assert!(res == Ok(()) && sds(after, Some(Datum::new(Time(tm), s))), "C20.encoder.present_state_written_unchanged"); }
        }
        vk_assert!(w.vk_inner().updates == 1, "C20.encoder.inner_updated_once");
        vk_end!();
    }
}
'''


def spec(ctx):
    hs = [
        Harness("c20_actuator", "e2", unwind=4, skeletons=list(itertools.product([0, 1], repeat=4)),
                clause="actuator wrapper: terminal has state/command or nothing x inner accepts/rejects x inner update ok/fails; all values symbolic"),
        Harness("c20_encoder", "e2", unwind=4, skeletons=[(a, b, c) for a in range(3) for b in range(2) for c in range(2)],
                clause="encoder wrapper: inner present/absent/error x inner update ok/fails x terminal empty or holding a state"),
    ]
    return {
        "crates": [{"rust": RUST, "harnesses": hs}],
        "functions": ["ActuatorWrapper::{new, get_terminal, update}", "GetterStateDeviceWrapper::{new, get_terminal, update}", "Getter<TerminalData> for Terminal"],
        "bounds": {"rounds": "ONE update from arbitrary terminal contents and inner-object behaviour: the wrappers keep no state of their own besides the terminal, so this covers any number of rounds",
                   "values": "all f32 states / commands, all i64 timestamps, error codes symbolic"},
        "assumptions": ["cfg(kani) hooks ActuatorWrapper::vk_inner / GetterStateDeviceWrapper::vk_inner expose the (private) inner object read-only so that the recording settable / counting getter can be inspected",
                        "the wrapper terminal is not linked to an external terminal here (what a linked terminal reads is C09's clause)"],
        "not_decided": ["the PID wrapper clause (PIDWrapper == stand-alone CommandPID fed the same data): CBMC's symex of PIDWrapper::new / update (Rc<RefCell<dyn Getter>> graph built with to_dyn! and follow) "
                        "did not terminate within 15 minutes (measured in C16); CommandPID itself is decided in C11 and following in C15"],
    }
