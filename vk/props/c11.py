"""C11 CommandPID integrates its PID output 0, 1 or 2 times, by command kind."""
import itertools

from .. import hist
from ..core import Harness

RUST = r'''
#[cfg(kani)]
mod c11 {
    use super::*;
    use rrtk::streams::control::*;
''' + hist.RUST + r'''
    #[derive(Clone, Copy)]
    struct U1 { out_int: f32, err_int: f32, out_int_int: Option<f32> }
    #[derive(Clone, Copy)]
    struct U0 { time: i64, out: f32, err: f32, u1: Option<U1> }
    /// Specification state: the PID law (gains selected by the command kind) on error = command - state component,
    /// its trapezoidal integral and double integral, restarted by: absent input, a different command, or the first
    /// present sample after an input error.
    struct Spec { cmd: Command, k: PositionDerivativeDependentPIDKValues, st: Result<Option<U0>, E> }
    impl Spec {
        fn gains(&self) -> PIDKValues { self.k.get_k_values(PositionDerivative::from(self.cmd)) }
        fn set(&mut self, c: Command) { if c != self.cmd { self.st = Ok(None); self.cmd = c; } }
        fn sample(&mut self, t: i64, s: State) {
            let kind = PositionDerivative::from(self.cmd);
            let comp = match kind { PositionDerivative::Position => s.position, PositionDerivative::Velocity => s.velocity, PositionDerivative::Acceleration => s.acceleration };
            let err = f32::from(self.cmd) - comp;
            let g = self.gains();
            let pid = |e: f32, i: f32, d: f32| g.kp * e + g.ki * i + g.kd * d;
            self.st = Ok(Some(match self.st {
                Ok(None) | Err(_) => U0 { time: t, out: pid(err, 0.0, 0.0), err, u1: None },
                Ok(Some(p)) => {
                    let dt = secs(t - p.time);
                    let drv = (err - p.err) / dt;
                    let int_add = (p.err + err) / 2.0 * dt;
                    match p.u1 {
                        None => {
                            let out = pid(err, int_add, drv);
                            U0 { time: t, out, err, u1: Some(U1 { out_int: (p.out + out) / 2.0 * dt, err_int: int_add, out_int_int: None }) }
                        }
                        Some(q) => {
                            let err_int = q.err_int + int_add;
                            let out = pid(err, err_int, drv);
                            let out_int = q.out_int + (p.out + out) / 2.0 * dt;
                            let add2 = (q.out_int + out_int) / 2.0 * dt;
                            let oii = match q.out_int_int { None => add2, Some(x) => x + add2 };
                            U0 { time: t, out, err, u1: Some(U1 { out_int, err_int, out_int_int: Some(oii) }) }
                        }
                    }
                }
            }));
        }
        fn out(&self) -> Output<f32, E> {
            match self.st {
                Err(e) => Err(Error::Other(e)),
                Ok(None) => Ok(None),
                Ok(Some(u)) => match PositionDerivative::from(self.cmd) {
                    PositionDerivative::Position => Ok(Some(Datum::new(Time(u.time), u.out))),                       // 0 integrations
                    PositionDerivative::Velocity => Ok(u.u1.map(|q| Datum::new(Time(u.time), q.out_int))),             // 1: absent for the first sample
                    PositionDerivative::Acceleration => Ok(match u.u1 { Some(U1 { out_int_int: Some(x), .. }) => Some(Datum::new(Time(u.time), x)), _ => None }), // 2
                },
            }
        }
    }
    fn gains3() -> PositionDerivativeDependentPIDKValues {
        PositionDerivativeDependentPIDKValues::new(PIDKValues::new(sym_f32(), sym_f32(), sym_f32()), PIDKValues::new(sym_f32(), sym_f32(), sym_f32()), PIDKValues::new(sym_f32(), sym_f32(), sym_f32()))
    }
    // skeleton: [k, initial kind, e_1 .. e_k]; events: 0 sample, 1 absent, 2 error, 3 set(the current command),
    // 4 set(same kind, symbolic value), 5 set(next kind, symbolic value)
    #[kani::proof]
    #[kani::unwind(9)]
    fn c11_command_pid() {
        let k = sk(0) as usize;
        let mut evs = [Ev::None; KMAX];
        let mut i = 0;
        while i < k { let e = sk(2 + i); if e < 3 { evs[i] = ev_state(e); } i += 1; }
        let mut script = Script::<State, KMAX>::new(evs);
        let r = ptr_ref(&mut script);
        // histories containing set(current command) use concrete command values, so that rrtk's `command != self.command`
        // is decided during symbolic execution instead of merging a reset and a non-reset path over NaN-ness
        let concrete_cmd = sk(2 + KMAX) == 1;
        let cval = |i: usize| -> f32 { if concrete_cmd { 1.5 + i as f32 } else { sym_f32() } };
        let cmd0 = Command::new(kind_of(sk(1)), cval(0));
        let kv = gains3();
        let mut pid = CommandPID::new(r.clone(), cmd0, kv);
        let mut m = Spec { cmd: cmd0, k: kv, st: Ok(None) };
        // following mode: the command comes from a followed getter and is applied at the start of every update
        let following = sk(3 + KMAX) == 1;
        let mut followed = One(Ev::Some(0, cmd0));
        let mut cur_followed = cmd0;
        if following { pid.follow(dyn_ref::<Command, One<Command>>(&mut followed)); }
        vk_assert!(pid.get() == Ok(None), "C11.absent_before_first_update");
        let mut i = 0;
        while i < k {
            let e = sk(2 + i);
            if e == 6 {
                // the followed getter's command changes to the next kind (takes effect at the next update)
                cur_followed = Command::new(kind_of(match PositionDerivative::from(cur_followed) { PositionDerivative::Position => 1, PositionDerivative::Velocity => 2, PositionDerivative::Acceleration => 0 }), cval(i + 1));
                unsafe { *(&mut followed as *mut One<Command>) = One(Ev::Some(i as i64, cur_followed)); }
            } else if e < 3 {
                r.borrow_mut().idx = i;
                let res = pid.update();
                if following { m.set(cur_followed); }
                match evs[i] { Ev::Some(t, s) => m.sample(t, s), Ev::None => { m.st = Ok(None); } Ev::Err(x) => { m.st = Err(x); } }
                vk_assert!(upd_ok(res, err_of(evs[i])), "C11.update_result");
            } else {
                let c = match e {
                    3 => m.cmd,
                    4 => Command::new(PositionDerivative::from(m.cmd), cval(i + 1)),
                    _ => Command::new(kind_of(match PositionDerivative::from(m.cmd) { PositionDerivative::Position => 1, PositionDerivative::Velocity => 2, PositionDerivative::Acceleration => 0 }), cval(i + 1)),
                };
                let before = pid.get();
                vk_assert!(pid.set(c) == Ok(()), "C11.set_ok");
                if e == 3 && c == m.cmd { vk_assert!(out_same_f32(&pid.get(), &before), "C11.setting_the_current_command_changes_nothing"); }
                m.set(c);
            }
            vk_assert!(out_same_f32(&pid.get(), &m.out()), "C11.output_by_command_kind");
            i += 1;
        }
        vk_end!();
        core::mem::forget(pid);
    }
}
'''


hist_kmax = 6


def skeletons(k, events, max_sets=None):
    out = []
    for kind in range(3):
        for seq in itertools.product(events, repeat=k):
            if seq[0] >= 3:
                continue        # a leading set() is the same as a different initial command
            if max_sets is not None and sum(1 for e in seq if e >= 3) > max_sets:
                continue
            pad = (9,) * (hist_kmax - k)
            # histories that set the current command again (3) or another value of the same kind (4) use concrete,
            # pairwise different command values, so that rrtk's `command != self.command` is decided during symex
            out.append((k, kind) + seq + pad + (1 if (3 in seq or 4 in seq) else 0, 0))
    return out


def spec(ctx):
    if ctx.quick:
        k, events, max_sets = 3, (0, 1, 2, 3, 4, 5), 1
    else:
        k, events, max_sets = 4, (0, 1, 2, 3, 4, 5), 2
    sks = skeletons(k, events, max_sets)
    # following mode (concrete command values): histories with exactly one change of the followed command, plus one without
    fol = [(0,) * k] + [q for q in itertools.product((0, 1, 2, 6), repeat=k) if sum(1 for e in q if e == 6) == (1 if ctx.quick else 1) or (not ctx.quick and sum(1 for e in q if e == 6) == 2)]
    for kind in range(3):
        for seq in fol:
            sks.append((k, kind) + tuple(seq) + (9,) * (hist_kmax - k) + (1, 1))
    hs = [Harness("c11_command_pid", "e2", unwind=9, skeletons=sks,
                  clause="every sequence of %d events from %s x 3 initial command kinds; output after every event" % (k, list(events)))]
    return {
        "crates": [{"rust": RUST, "harnesses": hs}],
        "functions": ["CommandPID::{new, update, get, set/impl_set, reset}", "PositionDerivativeDependentPIDKValues::evaluate", "State::get_value"],
        "bounds": {"events per history": k, "event alphabet": "0 sample, 1 absent, 2 error, 3 set(current command), 4 set(same kind, other value), 5 set(next kind, any value); at most %d set event(s) per history, none leading; "
                   "plus following mode: 6 = the followed getter's command changes kind (applied at the next update)" % max_sets,
                   "values": "9 gains, command values, state samples: all f32; timestamps |t| < 2^60"},
        "skeleton_space": {"histories": len(sks)},
        "assumptions": ["command equality is Rust's == on Command (a NaN command is different from itself, in rrtk and in the spec alike)"],
        "not_decided": ["histories longer than %d events" % k, "a followed getter that is absent or erroring (Settable following in general is C15)",
                        "f32 rounding magnitude of the double integral"],
    }
