"""C15 Settable bookkeeping, following and history adapters map values and time exactly."""
from ..core import Harness

RUST = r'''
#[cfg(kani)]
mod c15 {
    use super::*;

    fn sym_ev(id: u64) -> Ev<Tr> {
        let k: u8 = kani::any();
        kani::assume(k < 3);
        match k { 0 => Ev::Some(kani::any(), Tr::leaf(id)), 1 => Ev::None, _ => Ev::Err(kani::any()) }
    }
    // ---- Settable bookkeeping + follow / stop_following / update_following_data, on a recording settable:
    // every sequence of @K@ symbolic operations
    #[kani::proof]
    #[kani::unwind(@UNW@)]
    fn c15_settable() {
        let mut sink: Sink<Tr> = Sink::new();
        let mut followed = One(sym_ev(7));
        let fref: Reference<dyn Getter<Tr, E>> = dyn_ref::<Tr, One<Tr>>(&mut followed);
        // reference model
        let mut last: Option<Tr> = None;
        let mut following = false;
        let mut cur = followed.0;
        let mut k = 0;
        while k < @KS@ {
            let op = sk(k);
            let id = 1 + k as u64;
            match op {
                0 => {  // set that the implementor accepts
                    sink.reject = None;
                    let r = sink.set(Tr::leaf(id));
                    vk_assert!(r == Ok(()), "C15.set.ok");
                    vk_assert!(sink.got == Some(Tr::leaf(id)), "C15.set.implementor_receives_value");
                    last = Some(Tr::leaf(id));
                }
                1 => {  // set that the implementor rejects: error propagated, last request unchanged
                    let e: E = kani::any();
                    sink.reject = Some(e);
                    let r = sink.set(Tr::leaf(id));
                    vk_assert!(r == Err(Error::Other(e)), "C15.set.failure_propagated");
                }
                2 => { sink.follow(fref.clone()); following = true; }
                3 => { sink.stop_following(); following = false; }
                4 => {  // the followed getter's output changes
                    cur = sym_ev(id);
                    unsafe { *(&mut followed as *mut One<Tr>) = One(cur); }
                }
                _ => {  // update: forward exactly the getter's present value, nothing when absent, propagate its error
                    let rej: Option<E> = if kani::any() { Some(kani::any()) } else { None };
                    sink.reject = rej;
                    let sets_before = sink.sets;
                    let r = sink.update();
                    if !following {
                        vk_assert!(r == Ok(()) && sink.sets == sets_before, "C15.update.not_following_sets_nothing");
                    } else {
                        match cur {
                            Ev::Err(e) => { vk_assert!(r == Err(Error::Other(e)) && sink.sets == sets_before, "C15.update.getter_error_propagated"); }
                            Ev::None => { vk_assert!(r == Ok(()) && sink.sets == sets_before, "C15.update.absent_forwards_nothing"); }
                            Ev::Some(_, v) => {
                                vk_assert!(sink.sets == sets_before + 1, "C15.update.present_value_forwarded_once");
                                match rej {
                                    None => { vk_assert!(r == Ok(()) && sink.got == Some(v), "C15.update.forwards_exactly_the_value"); last = Some(v); }
                                    Some(e) => { vk_assert!(r == Err(Error::Other(e)), "C15.update.set_failure_propagated"); }
                                }
                            }
                        }
                    }
                }
            }
            vk_assert!(sink.get_last_request() == last, "C15.last_request_is_last_successful_set");
            k += 1;
        }
        vk_end!();
        core::mem::forget(sink);
    }
    // ---- ConstantGetter: value at the time getter's time; set replaces the value; follows like any settable
    #[kani::proof]
    fn c15_constant_getter() {
        let now: Result<i64, E> = if kani::any() { Ok(kani::any()) } else { Err(kani::any()) };
        let mut clk = Clock(now);
        let mut cg = ConstantGetter::new(ptr_ref(&mut clk), Tr::leaf(1));
        let want = |v: Tr| -> Output<Tr, E> { match now { Ok(t) => Ok(Some(Datum::new(Time(t), v))), Err(e) => Err(Error::Other(e)) } };
        vk_assert!(cg.get() == want(Tr::leaf(1)), "C15.constant_getter.value_at_clock_time");
        vk_assert!(cg.get_last_request() == None, "C15.constant_getter.no_request_yet");
        vk_assert!(cg.set(Tr::leaf(2)) == Ok(()), "C15.constant_getter.set_ok");
        vk_assert!(cg.get() == want(Tr::leaf(2)) && cg.get_last_request() == Some(Tr::leaf(2)), "C15.constant_getter.set_replaces_value");
        let ev = sym_ev(3);
        let mut src = One(ev);
        cg.follow(dyn_ref::<Tr, One<Tr>>(&mut src));
        let r = cg.update();
        match ev {
            Ev::Some(_, v) => { vk_assert!(r == Ok(()) && cg.get() == want(v), "C15.constant_getter.follows_present_value"); }
            Ev::None => { vk_assert!(r == Ok(()) && cg.get() == want(Tr::leaf(2)), "C15.constant_getter.absent_changes_nothing"); }
            Ev::Err(e) => { vk_assert!(r == Err(Error::Other(e)) && cg.get() == want(Tr::leaf(2)), "C15.constant_getter.error_propagated"); }
        }
        cg.stop_following();
        unsafe { *(&mut src as *mut One<Tr>) = One(Ev::Some(0, Tr::leaf(5))); }
        vk_assert!(cg.update() == Ok(()) && cg.get() == want(match ev { Ev::Some(_, v) => v, _ => Tr::leaf(2) }), "C15.constant_getter.stops_after_stop_following");
        vk_end!();
        core::mem::forget(cg);
    }
    // ---- time getter from a getter; Time as a time getter
    #[kani::proof]
    fn c15_time_getters() {
        let ev = sym_ev(1);
        let mut g = One(ev);
        let tg = TimeGetterFromGetter::new(ptr_ref(&mut g));
        let want: TimeOutput<E> = match ev { Ev::Some(t, _) => Ok(Time(t)), Ev::None => Err(Error::FromNone), Ev::Err(e) => Err(Error::Other(e)) };
        vk_assert!(tg.get() == want, "C15.time_getter_from_getter");
        let t: i64 = kani::any();
        let as_tg: TimeOutput<E> = <Time as TimeGetter<E>>::get(&Time(t));
        vk_assert!(as_tg == Ok(Time(t)), "C15.time_is_a_time_getter");
        vk_end!();
    }
    // ---- getter over a history: value of the history at (now + offset), restamped with now
    // the history stamps its data with its OWN (arbitrary) time, not with the requested one: the adapter must restamp with `now`
    pub struct Hist { pub updates: u32, pub stamp: i64 }
    fn hval(t: i64) -> i64 { t ^ 0x5A5A_5A5A }
    impl History<i64, E> for Hist {
        fn get(&self, time: Time) -> Option<Datum<i64>> { if time.0 < 0 { None } else { Some(Datum::new(Time(self.stamp), hval(time.0))) } }
    }
    impl Updatable<E> for Hist { fn update(&mut self) -> NothingOrError<E> { self.updates += 1; Ok(()) } }
    fn b60(x: i64) -> bool { x > -(1i64 << 60) && x < (1i64 << 60) }
    #[kani::proof]
    #[kani::unwind(@UNW@)]
    fn c15_getter_from_history() {
        let mut h = Hist { updates: 0, stamp: sym_time() };
        let now0 = sym_time();
        let mut clk = Clock(Ok(now0));
        let rc = ptr_ref(&mut clk);
        let ctor = sk(0);
        let arg = sym_time();
        // the offset each constructor must establish: chosen instant -> chosen history time
        let (mut g, mut off) = match ctor {
            0 => (GetterFromHistory::new_no_delta(&mut h, rc.clone()), 0),
            1 => (GetterFromHistory::new_start_at_zero(&mut h, rc.clone()).unwrap(), -now0),
            2 => (GetterFromHistory::new_custom_start(&mut h, rc.clone(), Time(arg)).unwrap(), arg - now0),
            _ => (GetterFromHistory::new_custom_delta(&mut h, rc.clone(), Time(arg)), arg),
        };
        let mut now = now0;
        let mut k = 0;
        while k < @K@ {
            let op: u8 = kani::any();
            kani::assume(op < 4);
            match op {
                0 => { now = sym_time(); rc.borrow_mut().0 = Ok(now); }                                     // clock advance (any instant)
                1 => { let d = sym_time(); g.set_delta(Time(d)); off = d; }
                2 => { let t = sym_time(); vk_assert!(g.set_time(Time(t)) == Ok(()), "C15.history.set_time_ok"); off = t - now; }
                _ => { vk_assert!(g.update() == Ok(()), "C15.history.update_ok"); }
            }
            kani::assume(b60(off));
            let got = g.get();
            let at = now + off;
            let want: Output<i64, E> = if at < 0 { Ok(None) } else { Ok(Some(Datum::new(Time(now), hval(at)))) };
            vk_assert!(got == want, "C15.history.value_at_now_plus_offset_restamped_with_now");
            k += 1;
        }
        // a failing clock is propagated by get, set_time and the clock-reading constructors
        let e: E = kani::any();
        rc.borrow_mut().0 = Err(e);
        vk_assert!(g.get() == Err(Error::Other(e)), "C15.history.clock_error_propagated_by_get");
        vk_assert!(g.set_time(Time(0)) == Err(Error::Other(e)), "C15.history.clock_error_propagated_by_set_time");
        vk_end!();
    }
    #[kani::proof]
    fn c15_history_ctor_clock_error() {
        let mut h = Hist { updates: 0, stamp: 0 };
        let e: E = kani::any();
        let mut clk = Clock(Err(e));
        let rc = ptr_ref(&mut clk);
        let r = match sk(0) {
            0 => GetterFromHistory::new_start_at_zero(&mut h, rc.clone()).err(),
            _ => GetterFromHistory::new_custom_start(&mut h, rc.clone(), Time(kani::any())).err(),
        };
        vk_assert!(r == Some(Error::Other(e)), "C15.history.constructor_propagates_clock_error");
        vk_end!();
    }
}
'''


def spec(ctx):
    import itertools
    K = 4 if ctx.quick else 5
    KS = 3 if ctx.quick else 4
    ssk = [s for s in itertools.product(range(6), repeat=KS) if 5 in s or 0 in s or 1 in s]
    rust = RUST.replace("@KS@", str(KS)).replace("@K@", str(K)).replace("@UNW@", str(K + 3))
    hs = [
        Harness("c15_settable", "e1", unwind=K + 3, skeletons=ssk, timeout=300, clause="recording settable: every sequence of %d operations from {set ok, set rejected, follow, stop_following, followed output changes, update} (values, categories, error codes symbolic)" % KS),
        Harness("c15_constant_getter", "e1", clause="ConstantGetter as getter and as settable (set, follow, stop_following)"),
        Harness("c15_time_getters", "e1", clause="TimeGetterFromGetter (absent -> FromNone), Time as TimeGetter"),
        Harness("c15_getter_from_history", "e1", unwind=K + 3, skeletons=[(0,), (1,), (2,), (3,)], timeout=600,
                clause="GetterFromHistory, each of the 4 constructors, then every sequence of %d operations from {clock change, set_delta, set_time, update}" % K),
        Harness("c15_history_ctor_clock_error", "e1", skeletons=[(0,), (1,)], clause="clock-reading constructors propagate a clock error"),
    ]
    return {
        "crates": [{"rust": rust, "harnesses": hs}],
        "functions": ["Settable::{set, follow, stop_following, update_following_data, get_last_request}", "ConstantGetter::{new,get,set,update}",
                      "TimeGetterFromGetter::get", "TimeGetter for Time", "GetterFromHistory::{new_no_delta,new_start_at_zero,new_custom_start,new_custom_delta,set_delta,set_time,get,update}"],
        "bounds": {"operation sequences": "settable: all sequences of %d operations (%d skeletons, pruned of those with no set/update); history adapter: all sequences of %d symbolic operations per constructor" % (KS, len(ssk), K), "clock values / offsets": "|x| < 2^60 (sums cannot overflow i64)",
                   "payload": "trace payload Tr / injectively tagged i64 (any T by parametricity)"},
        "assumptions": ["the recording settable Sink is a straightforward Settable implementor using rrtk's default set/follow/update_following_data"],
        "not_decided": ["sequences longer than %d operations" % K, "clock values / offsets beyond 2^60 (checked-arithmetic panic)"],
    }
