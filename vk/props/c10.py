"""C10 Integral, derivative and to-state streams equal trapezoid sums and differences."""
from .. import hist
from ..core import Harness

PANIC_DIM = r"assertion failed: self\.eq_assume_true\(rhs\)"

RUST = r'''
#[cfg(kani)]
mod c10 {
    use super::*;
    use rrtk::streams::{converters::*, math::*};
''' + hist.RUST + r'''
    fn history_q(m: i8, s: i8) -> (usize, [Ev<Quantity>; KMAX]) {
        let k = sk(0) as usize;
        let mut evs = [Ev::None; KMAX];
        let mut i = 0;
        while i < k { evs[i] = ev_q(sk(1 + i), m, s); i += 1; }
        (k, evs)
    }
    // ---- derivative: backward difference quotient of the last two samples since the last reset (absent / error)
    #[kani::proof]
    #[kani::unwind(9)]
    fn c10_derivative() {
        let (m, s) = sym_unit60();
        let (k, evs) = history_q(m, s);
        let mut script = Script::<Quantity, KMAX>::new(evs);
        let r = ptr_ref(&mut script);
        let mut st = DerivativeStream::new(r.clone());
        let mut prev: Option<(i64, f32)> = None;
        let mut want: Output<Quantity, E> = Ok(None);
        let mut i = 0;
        while i < k {
            r.borrow_mut().idx = i;
            let res = st.update();
            match evs[i] {
                Ev::Err(e) => { prev = None; want = Err(Error::Other(e)); }
                Ev::None => { prev = None; want = Ok(None); }
                Ev::Some(t, x) => {
                    match prev {
                        None => { want = Ok(None); }       // first sample after a reset: not enough samples yet
                        Some((tp, xp)) => { want = Ok(Some(Datum::new(Time(t), Quantity::new((x.value - xp) / secs(t - tp), Unit::new(m, s - 1))))); }
                    }
                    prev = Some((t, x.value));
                }
            }
            vk_assert!(upd_ok(res, err_of(evs[i])), "C10.derivative.update_result");
            vk_assert!(out_same_q(&st.get(), &want), "C10.derivative.value_time_unit");
            i += 1;
        }
        vk_end!();
    }
    // ---- integral: trapezoidal sum over the run of present samples since the last reset
    #[kani::proof]
    #[kani::unwind(9)]
    fn c10_integral() {
        let (m, s) = sym_unit60();
        let (k, evs) = history_q(m, s);
        let mut script = Script::<Quantity, KMAX>::new(evs);
        let r = ptr_ref(&mut script);
        let mut st = IntegralStream::new(r.clone());
        let mut prev: Option<(i64, f32)> = None;
        let mut i = 0;
        while i < k {
            // inductive step: the accumulated value so far is the stream's own (already checked) previous output
            let acc: Option<f32> = match st.get() { Ok(Some(d)) => Some(d.value.value), _ => None };
            r.borrow_mut().idx = i;
            let res = st.update();
            vk_assert!(upd_ok(res, err_of(evs[i])), "C10.integral.update_result");
            let got = st.get();
            match evs[i] {
                Ev::Err(e) => { prev = None; vk_assert!(got == Err(Error::Other(e)), "C10.integral.error_reported"); }
                Ev::None => { prev = None; vk_assert!(got == Ok(None), "C10.integral.absent_resets"); }
                Ev::Some(t, x) => {
                    match prev {
                        None => { vk_assert!(got == Ok(None), "C10.integral.absent_until_two_samples"); }
                        Some((tp, xp)) => {
                            let add = secs(t - tp) * (xp + x.value) / 2.0;
                            let ok = match got {
                                Ok(Some(d)) => d.time.0 == t && d.value.unit == Unit::new(m, s + 1) && match acc {
                                    None => same(d.value.value, add),
                                    Some(a) => same(d.value.value, a + add) || same(d.value.value, add + a),
                                },
                                _ => false,
                            };
                            vk_assert!(ok, "C10.integral.trapezoid_sum_time_unit");
                        }
                    }
                    prev = Some((t, x.value));
                }
            }
            i += 1;
        }
        vk_end!();
    }
    // ---- to-state converters: sums / quotients applied once or twice; absent ignored, error resets (get never errors)
    // kind: 0 acceleration->state, 1 velocity->state, 2 position->state
    struct Conv { kind: u32, n: u32, t: i64, x: f32, a: f32, b: f32 }
    impl Conv {
        fn reset(&mut self) { self.n = 0; }
        fn step(&mut self, t: i64, x: f32) {
            if self.n == 0 { self.n = 1; self.t = t; self.x = x; return; }
            let dt = secs(t - self.t);
            match self.kind {
                0 => {      // x = acceleration, a = velocity, b = position
                    let vel_add = (self.x + x) / 2.0 * dt;
                    if self.n == 1 { self.a = vel_add; self.n = 2; }
                    else {
                        let new_vel = self.a + vel_add;
                        let pos_add = (self.a + new_vel) / 2.0 * dt;
                        self.b = if self.n == 2 { pos_add } else { self.b + pos_add };
                        self.a = new_vel; self.n = 3;
                    }
                }
                1 => {      // x = velocity, a = acceleration, b = position
                    let acc = (x - self.x) / dt;
                    let pos_add = (self.x + x) / 2.0 * dt;
                    self.b = if self.n == 1 { pos_add } else { self.b + pos_add };
                    self.a = acc; self.n = 2;
                }
                _ => {      // x = position, a = velocity, b = acceleration
                    let vel = (x - self.x) / dt;
                    if self.n == 1 { self.a = vel; self.n = 2; }
                    else { self.b = (vel - self.a) / dt; self.a = vel; self.n = 3; }
                }
            }
            self.t = t; self.x = x;
        }
        fn out(&self) -> Output<State, E> {
            let need = if self.kind == 1 { 2 } else { 3 };
            if self.n < need { return Ok(None); }
            let st = match self.kind { 0 => State::new_raw(self.b, self.a, self.x), 1 => State::new_raw(self.b, self.x, self.a), _ => State::new_raw(self.x, self.a, self.b) };
            Ok(Some(Datum::new(Time(self.t), st)))
        }
    }
    fn conv_run<S: Getter<State, E>>(kind: u32, st: &mut S, r: &Reference<Script<Quantity, KMAX>>, k: usize, evs: &[Ev<Quantity>; KMAX]) {
        let mut m = Conv { kind, n: 0, t: 0, x: 0.0, a: 0.0, b: 0.0 };
        vk_assert!(st.get() == Ok(None), "C10.to_state.absent_before_first_update");
        let mut i = 0;
        while i < k {
            r.borrow_mut().idx = i;
            let res = st.update();
            match evs[i] { Ev::Err(_) => m.reset(), Ev::None => {}, Ev::Some(t, x) => m.step(t, x.value) }
            vk_assert!(upd_ok(res, err_of(evs[i])), "C10.to_state.update_result");
            vk_assert!(out_same_state(&st.get(), &m.out()), "C10.to_state.sums_and_quotients");
            i += 1;
        }
        vk_end!();
    }
    #[kani::proof] #[kani::unwind(9)]
    fn c10_acc_to_state() { let (k, evs) = history_q(1, -2); let mut sc = Script::<Quantity, KMAX>::new(evs); let r = ptr_ref(&mut sc); let mut st = AccelerationToState::new(r.clone()); conv_run(0, &mut st, &r, k, &evs); }
    #[kani::proof] #[kani::unwind(9)]
    fn c10_vel_to_state() { let (k, evs) = history_q(1, -1); let mut sc = Script::<Quantity, KMAX>::new(evs); let r = ptr_ref(&mut sc); let mut st = VelocityToState::new(r.clone()); conv_run(1, &mut st, &r, k, &evs); }
    #[kani::proof] #[kani::unwind(9)]
    fn c10_pos_to_state() { let (k, evs) = history_q(1, 0); let mut sc = Script::<Quantity, KMAX>::new(evs); let r = ptr_ref(&mut sc); let mut st = PositionToState::new(r.clone()); conv_run(2, &mut st, &r, k, &evs); }
    // ---- a wrongly dimensioned present sample makes the to-state converters panic (checking enabled)
    #[kani::proof]
    fn c10_to_state_wrong_unit_panics() {
        let which = sk(0);
        let (m, s) = (kani::any::<i8>(), kani::any::<i8>());
        let need = match which { 0 => -2i8, 1 => -1, _ => 0 };
        kani::assume(!(m == 1 && s == need));
        let mut g = One(Ev::Some(sym_time(), Quantity::new(sym_f32(), Unit::new(m, s))));
        let r = ptr_ref(&mut g);
        kani::cover!(true, "vk_end");
        match which {
            0 => { let mut st = AccelerationToState::new(r.clone()); let _ = st.update(); }
            1 => { let mut st = VelocityToState::new(r.clone()); let _ = st.update(); }
            _ => { let mut st = PositionToState::new(r.clone()); let _ = st.update(); }
        }
        vk_assert!(false, "C10.to_state.wrong_unit_must_panic");
    }
}
'''


def spec(ctx):
    K = 4 if ctx.quick else 5
    sks = hist.histories(K)
    names = [("c10_derivative", "DerivativeStream"), ("c10_integral", "IntegralStream"), ("c10_acc_to_state", "AccelerationToState"),
             ("c10_vel_to_state", "VelocityToState"), ("c10_pos_to_state", "PositionToState")]
    hs = [Harness(n, "e2", unwind=9, skeletons=sks, clause="%s: every history of %d events; value, time, unit and category after every update" % (t, K)) for n, t in names]
    hs.append(Harness("c10_to_state_wrong_unit_panics", "e1", skeletons=[(0,), (1,), (2,)], allow_fail=PANIC_DIM,
                      clause="to-state converters panic on a wrongly dimensioned present sample (all i8^2 units but the right one)"))
    return {
        "crates": [{"rust": RUST, "harnesses": hs}],
        "functions": ["DerivativeStream::{update,get}", "IntegralStream::{update,get}", "AccelerationToState::{update,get}", "VelocityToState::{update,get}", "PositionToState::{update,get}"],
        "bounds": {"history length": K, "event kinds": "all 3^%d sequences (exhaustive)" % K, "input unit (integral/derivative)": "symbolic, |e| <= 60",
                   "values": "all f32; timestamps |t| < 2^60, not required increasing"},
        "skeleton_space": {"histories per stream": len(sks), "streams": 5},
        "assumptions": ["integral: one-step induction - the accumulated value before an update is the stream's own previous output (checked at the previous step); either operand order of the final f32 addition accepted",
                        "shift invariance: specs read timestamps only through differences (syntactic)"],
        "not_decided": ["histories longer than %d events" % K, "magnitude of f32 rounding versus exact sums / quotients"],
    }
