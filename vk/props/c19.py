"""C19 Feature configuration changes only whether units are checked, never the numbers."""
import os
import re
import shutil

from .. import core
from ..core import Harness

RUST = r'''
#[cfg(kani)]
mod c19 {
    use super::*;
    // `rrtk`     = the repository built with  std + devices + dim_check_release   (checking ON, std)
    // `rrtk_off` = the same sources built with alloc + devices                     (checking OFF, no_std + alloc)
    use rrtk_off as off;
    fn q_on(v: f32, m: i8, s: i8) -> Quantity { Quantity::new(v, Unit::new(m, s)) }
    fn q_off(v: f32, m: i8, s: i8) -> off::Quantity { off::Quantity::new(v, off::Unit::new(m, s)) }

    // ---- well-dimensioned quantity programs: same numbers in both builds
    #[kani::proof]
    fn c19_quantity_programs() {
        let (a, b, c, d, e) = (sym_f32(), sym_f32(), sym_f32(), sym_f32(), sym_f32());
        let t: i64 = kani::any();
        let n: i64 = kani::any();
        // ((a[mm] / b[s]) * c[s] + d[mm]) - e[mm] * n  ... and mixed Time operands
        let r_on = ((q_on(a, 1, 0) / q_on(b, 0, 1)) * q_on(c, 0, 1) + q_on(d, 1, 0)) - q_on(e, 1, 0) * DimensionlessInteger(n);
        let r_off = ((q_off(a, 1, 0) / q_off(b, 0, 1)) * q_off(c, 0, 1) + q_off(d, 1, 0)) - q_off(e, 1, 0) * off::DimensionlessInteger(n);
        vk_assert!(veq(r_on.value, r_off.value), "C19.quantity_chain_same_value");
        let s_on = q_on(a, 1, -1) * Time(t) + q_on(d, 1, 0);
        let s_off = q_off(a, 1, -1) * off::Time(t) + q_off(d, 1, 0);
        vk_assert!(veq(s_on.value, s_off.value), "C19.mixed_time_chain_same_value");
        let mut u_on = q_on(a, 1, 0); u_on /= Time(t); u_on -= q_on(b, 1, -1); u_on *= q_on(c, 0, 0);
        let mut u_off = q_off(a, 1, 0); u_off /= off::Time(t); u_off -= q_off(b, 1, -1); u_off *= q_off(c, 0, 0);
        vk_assert!(veq(u_on.value, u_off.value), "C19.assign_forms_same_value");
        vk_assert!(veq((-q_on(a, 1, 0)).abs().value, (-q_off(a, 1, 0)).abs().value), "C19.neg_abs_same_value");
        vk_assert!(q_on(a, 1, 0).partial_cmp(&q_on(d, 1, 0)) == q_off(a, 1, 0).partial_cmp(&q_off(d, 1, 0)), "C19.ordering_same");
        vk_assert!((q_on(a, 1, 0) == q_on(d, 1, 0)) == (q_off(a, 1, 0) == q_off(d, 1, 0)) && (q_on(a, 1, 0) != q_on(a, 1, 0)) == (q_off(a, 1, 0) != q_off(a, 1, 0)), "C19.equality_same");
        vk_assert!(veq(Quantity::from(Time(t)).value, off::Quantity::from(off::Time(t)).value), "C19.time_to_quantity_same");
        vk_assert!(Time::try_from(q_on(a, 0, 1)).map(|x| x.0) == off::Time::try_from(q_off(a, 0, 1)).map(|x| x.0), "C19.quantity_to_time_same");
        vk_end!();
    }
    // ---- states, commands, setters
    #[kani::proof]
    fn c19_state_command_programs() {
        let (p, v, a, x) = (sym_f32(), sym_f32(), sym_f32(), sym_f32());
        let dt = sym_time();
        let mut s_on = State::new_raw(p, v, a);
        let mut s_off = off::State::new_raw(p, v, a);
        s_on.update(Time(dt));
        s_off.update(off::Time(dt));
        vk_assert!(veq(s_on.position, s_off.position) && veq(s_on.velocity, s_off.velocity) && veq(s_on.acceleration, s_off.acceleration), "C19.state_update_same");
        let r_on = s_on.set_constant_velocity(q_on(x, 1, -1));
        let r_off = s_off.set_constant_velocity(q_off(x, 1, -1));
        vk_assert!(r_on == r_off && veq(s_on.velocity, s_off.velocity) && veq(s_on.acceleration, s_off.acceleration), "C19.setter_same");
        let c_on = Command::from(State::new_raw(p, v, a));
        let c_off = off::Command::from(off::State::new_raw(p, v, a));
        vk_assert!(veq(f32::from(c_on), f32::from(c_off)), "C19.command_from_state_same_value");
        let k_on = match c_on { Command::Position(_) => 0, Command::Velocity(_) => 1, Command::Acceleration(_) => 2 };
        let k_off = match c_off { off::Command::Position(_) => 0, off::Command::Velocity(_) => 1, off::Command::Acceleration(_) => 2 };
        vk_assert!(k_on == k_off, "C19.command_from_state_same_kind");
        let n_on = State::new(q_on(p, 1, 0), q_on(v, 1, -1), q_on(a, 1, -2));
        let n_off = off::State::new(q_off(p, 1, 0), q_off(v, 1, -1), q_off(a, 1, -2));
        vk_assert!(veq(n_on.position, n_off.position) && veq(n_on.velocity, n_off.velocity), "C19.state_new_same");
        vk_end!();
    }
    // ---- streams: PID, integral, derivative over a three-sample history (times / categories identical)
    #[kani::proof]
    #[kani::unwind(6)]
    fn c19_stream_programs() {
        use rrtk::streams::{control::PIDControllerStream, math::{DerivativeStream, IntegralStream}};
        let ts = [sym_time(), sym_time(), sym_time()];
        let xs = [sym_f32(), sym_f32(), sym_f32()];
        let (sp, kp, ki, kd) = (sym_f32(), sym_f32(), sym_f32(), sym_f32());
        // on
        let mut g_on = One(Ev::Some(ts[0], xs[0]));
        let mut gq_on = One(Ev::Some(ts[0], q_on(xs[0], 1, 0)));
        let (r_on, rq_on) = (ptr_ref(&mut g_on), ptr_ref(&mut gq_on));
        let mut pid_on = PIDControllerStream::new(r_on.clone(), sp, PIDKValues::new(kp, ki, kd));
        let mut int_on = IntegralStream::new(rq_on.clone());
        let mut drv_on = DerivativeStream::new(rq_on.clone());
        // off (its own scripted getters: the two builds have distinct trait types)
        let mut g_off = OffOne(Ev::Some(ts[0], xs[0]));
        let mut gq_off = OffOneQ(Ev::Some(ts[0], xs[0]));
        let r_off = unsafe { off::Reference::from_ptr(&mut g_off as *mut OffOne) };
        let rq_off = unsafe { off::Reference::from_ptr(&mut gq_off as *mut OffOneQ) };
        let mut pid_off = off::streams::control::PIDControllerStream::new(r_off.clone(), sp, off::PIDKValues::new(kp, ki, kd));
        let mut int_off = off::streams::math::IntegralStream::new(rq_off.clone());
        let mut drv_off = off::streams::math::DerivativeStream::new(rq_off.clone());
        let mut i = 0;
        while i < 3 {
            r_on.borrow_mut().0 = Ev::Some(ts[i], xs[i]);
            rq_on.borrow_mut().0 = Ev::Some(ts[i], q_on(xs[i], 1, 0));
            r_off.borrow_mut().0 = Ev::Some(ts[i], xs[i]);
            rq_off.borrow_mut().0 = Ev::Some(ts[i], xs[i]);
            let _ = (pid_on.update(), int_on.update(), drv_on.update());
            { use off::Updatable; let _ = (pid_off.update(), int_off.update(), drv_off.update()); }
            let (a, b) = (pid_on.get(), { use off::Getter; pid_off.get() });
            vk_assert!(match (a, b) { (Ok(Some(x)), Ok(Some(y))) => x.time.0 == y.time.0 && veq(x.value, y.value), (Ok(None), Ok(None)) => true, _ => false }, "C19.pid_same");
            let (a, b) = (int_on.get(), { use off::Getter; int_off.get() });
            vk_assert!(match (a, b) { (Ok(Some(x)), Ok(Some(y))) => x.time.0 == y.time.0 && veq(x.value.value, y.value.value), (Ok(None), Ok(None)) => true, _ => false }, "C19.integral_same");
            let (a, b) = (drv_on.get(), { use off::Getter; drv_off.get() });
            vk_assert!(match (a, b) { (Ok(Some(x)), Ok(Some(y))) => x.time.0 == y.time.0 && veq(x.value.value, y.value.value), (Ok(None), Ok(None)) => true, _ => false }, "C19.derivative_same");
            i += 1;
        }
        vk_end!();
    }
    pub struct OffOne(pub Ev<f32>);
    impl off::Getter<f32, E> for OffOne {
        fn get(&self) -> off::Output<f32, E> { match self.0 { Ev::Some(t, v) => Ok(Some(off::Datum::new(off::Time(t), v))), Ev::None => Ok(None), Ev::Err(e) => Err(off::Error::Other(e)) } }
    }
    impl off::Updatable<E> for OffOne { fn update(&mut self) -> off::NothingOrError<E> { Ok(()) } }
    pub struct OffOneQ(pub Ev<f32>);
    impl off::Getter<off::Quantity, E> for OffOneQ {
        fn get(&self) -> off::Output<off::Quantity, E> { match self.0 { Ev::Some(t, v) => Ok(Some(off::Datum::new(off::Time(t), q_off(v, 1, 0)))), Ev::None => Ok(None), Ev::Err(e) => Err(off::Error::Other(e)) } }
    }
    impl off::Updatable<E> for OffOneQ { fn update(&mut self) -> off::NothingOrError<E> { Ok(()) } }
    // ---- motion profile accessors on identical parts (hook-built in both builds): same values at every time.
    // The CONSTRUCTOR is not compared: it goes through Quantity::abs, whose implementation is cfg-selected (std's abs
    // versus a comparison + negation), so the two constructors are different expression trees that only agree as values;
    // the equivalence of the two abs implementations themselves is decided in c19_quantity_programs.
    #[kani::proof]
    fn c19_motion_profile() {
        let (sp, sv, ma, ev) = (sym_f32(), sym_f32(), sym_f32(), sym_f32());
        let (t1, t2, t3): (i64, i64, i64) = (kani::any(), kani::any(), kani::any());
        kani::assume(t1 < (1 << 60) && t2 < (1 << 60) && t3 < (1 << 60) && t1 > -(1 << 60) && t2 > -(1 << 60) && t3 > -(1 << 60));
        let k = sym_kind();
        let m_on = MotionProfile::vk_from_parts(q_on(sp, 1, 0), q_on(sv, 1, -1), Time(t1), Time(t2), Time(t3), q_on(ma, 1, -2), Command::new(k, ev));
        let ko = match k { PositionDerivative::Position => off::PositionDerivative::Position, PositionDerivative::Velocity => off::PositionDerivative::Velocity, PositionDerivative::Acceleration => off::PositionDerivative::Acceleration };
        let m_off = off::MotionProfile::vk_from_parts(q_off(sp, 1, 0), q_off(sv, 1, -1), off::Time(t1), off::Time(t2), off::Time(t3), q_off(ma, 1, -2), off::Command::new(ko, ev));
        let t: i64 = kani::any();
        let same_o = |x: Option<Quantity>, y: Option<off::Quantity>| match (x, y) { (None, None) => true, (Some(x), Some(y)) => veq(x.value, y.value), _ => false };
        match sk(0) {
            0 => { vk_assert!(same_o(m_on.get_acceleration(Time(t)), m_off.get_acceleration(off::Time(t))), "C19.profile_same_acceleration"); }
            1 => { vk_assert!(same_o(m_on.get_velocity(Time(t)), m_off.get_velocity(off::Time(t))), "C19.profile_same_velocity"); }
            _ => { vk_assert!(same_o(m_on.get_position(Time(t)), m_off.get_position(off::Time(t))), "C19.profile_same_position"); }
        }
        vk_end!();
    }
    // ---- devices: inverter and gear train update, both sides holding data
    #[kani::proof]
    #[kani::unwind(4)]
    fn c19_devices() {
        use rrtk::devices::{GearTrain, Invert};
        use rrtk::Settable as _;
        let (s1, s2) = ([sym_f32(), sym_f32(), sym_f32()], [sym_f32(), sym_f32(), sym_f32()]);
        let (ta, tb): (i64, i64) = (kani::any(), kani::any());
        let r = sym_f32();
        let mut g_on = GearTrain::<E>::with_ratio(q_on(r, 0, 0));
        g_on.get_terminal_1().borrow_mut().set(Datum::new(Time(ta), State::new_raw(s1[0], s1[1], s1[2]))).unwrap();
        g_on.get_terminal_2().borrow_mut().set(Datum::new(Time(tb), State::new_raw(s2[0], s2[1], s2[2]))).unwrap();
        let _ = g_on.update();
        let a: Option<Datum<State>> = g_on.get_terminal_1().borrow().get_last_request();
        let mut g_off = off::devices::GearTrain::<E>::with_ratio(q_off(r, 0, 0));
        { use off::Settable; use off::Updatable;
          g_off.get_terminal_1().borrow_mut().set(off::Datum::new(off::Time(ta), off::State::new_raw(s1[0], s1[1], s1[2]))).unwrap();
          g_off.get_terminal_2().borrow_mut().set(off::Datum::new(off::Time(tb), off::State::new_raw(s2[0], s2[1], s2[2]))).unwrap();
          let _ = g_off.update(); }
        let b: Option<off::Datum<off::State>> = { use off::Settable; g_off.get_terminal_1().borrow().get_last_request() };
        vk_assert!(match (a, b) { (Some(x), Some(y)) => x.time.0 == y.time.0 && veq(x.value.position, y.value.position) && veq(x.value.velocity, y.value.velocity), _ => false }, "C19.gear_train_same");
        vk_end!();
    }
    // ---- with checking compiled OUT no unit mismatch ever panics or is rejected; results are plain f32 arithmetic
    #[kani::proof]
    fn c19_unchecked_never_panics() {
        let (m1, s1, m2, s2) = (kani::any::<i8>(), kani::any::<i8>(), kani::any::<i8>(), kani::any::<i8>());
        let (a, b) = (sym_f32(), sym_f32());
        let (x, y) = (q_off(a, m1, s1), q_off(b, m2, s2));
        vk_assert!(same((x + y).value, a + b) && same((x - y).value, a - b) && same((x * y).value, a * b) && same((x / y).value, a / b), "C19.unchecked.plain_f32_arithmetic");
        let mut z = x; z += y; z -= y;
        vk_assert!(x.partial_cmp(&y) == a.partial_cmp(&b), "C19.unchecked.ordering_is_f32_ordering");
        vk_assert!(off::Time::try_from(x).is_ok() && off::DimensionlessInteger::try_from(x).is_ok(), "C19.unchecked.conversions_never_rejected");
        let mut st = off::State::new_raw(0.0, 0.0, 0.0);
        vk_assert!(st.set_constant_position(x).is_ok() && st.set_constant_velocity(x).is_ok() && st.set_constant_acceleration(x).is_ok(), "C19.unchecked.setters_never_reject");
        let _ = off::State::new(x, y, x);
        let _ = off::devices::GearTrain::<E>::with_ratio(x);        // a ratio of any unit is accepted when checking is off
        vk_assert!((x == y) == (a == b), "C19.unchecked.equality_is_f32_equality");
        let t: i64 = kani::any();
        let _ = (x + off::Time(t), off::Time(t) - y, x - off::DimensionlessInteger(t));
        vk_end!();
    }
}
'''


def make_copies(tag):
    """Two renamed copies of /repo's sources (outside /repo and /verif); removed by cleanup()."""
    base = "/tmp/vk_c19_%s_%d" % (tag, os.getpid())
    shutil.rmtree(base, ignore_errors=True)
    for name in ("rrtk_off",):
        d = os.path.join(base, name)
        os.makedirs(d)
        shutil.copytree(os.path.join(core.REPO, "src"), os.path.join(d, "src"))
        toml = open(os.path.join(core.REPO, "Cargo.toml")).read()
        toml = re.sub(r'(?m)^name = "rrtk"', 'name = "%s"' % name, toml, count=1)
        open(os.path.join(d, "Cargo.toml"), "w").write(toml)
    return base


def spec(ctx):
    base = make_copies(ctx.tier)
    dep = ('rrtk = { path = "%s", default-features = false, features = ["std", "devices", "dim_check_release"] }\n'
           'rrtk_off = { path = "%s/rrtk_off", default-features = false, features = ["alloc", "devices"] }' % (core.REPO, base))
    hs = [
        Harness("c19_quantity_programs", "e2", split=True, timeout=150, clause="well-dimensioned quantity programs (operators, assign forms, mixed Time / DimensionlessInteger, conversions): same values"),
        Harness("c19_state_command_programs", "e2", split=True, timeout=150, clause="State::update, setters, Command conversions, State::new: same values / outcomes"),
        Harness("c19_stream_programs", "e2", unwind=6, timeout=200, split=True, clause="PID, integral, derivative over three samples: same values, times, categories"),
        Harness("c19_motion_profile", "e2", split=True, timeout=200, skeletons=[(0,), (1,), (2,)], clause="motion-profile accessors on identical (hook-built) parts: same values at every time"),
        Harness("c19_devices", "e2", unwind=4, timeout=200, clause="gear train update: same projected state"),
        Harness("c19_unchecked_never_panics", "e2", split=True, timeout=150, clause="checking compiled out: no unit mismatch panics or is rejected; plain f32 arithmetic (all i8^4 unit pairs)"),
    ]

    def cleanup():
        shutil.rmtree(base, ignore_errors=True)
    return {
        "crates": [{"rust": RUST, "harnesses": hs, "rrtk_dep": dep}],
        "cleanup": cleanup,
        "exhaustive": False,
        "functions": ["the same sources built twice: (std, devices, dim_check_release) and (alloc, devices)"],
        "bounds": {"programs": "the fixed program templates listed in the samples (not random programs over the whole API)", "values": "all f32, |t| < 2^60 where time differences are taken"},
        "assumptions": ["Kani models the dev profile for both builds; 'checking off' is obtained by not enabling any dim_check feature",
                        "the second copy of the sources lives in a scratch directory outside /repo and /verif and is removed after the run"],
        "not_decided": ["MotionProfile::new across configurations (cfg-selected Quantity::abs makes the two constructors different expression trees; only the abs implementations and the accessors are compared)", "libm / micromath powf versus std (no usable powf model) - EWMA and exponent streams are not compared", "the release profile",
                        "random programs over the whole public API: only the listed templates are decided"],
    }
