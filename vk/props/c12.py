"""C12 EWMA and moving average are time-weighted convex averages and never panic."""
from .. import hist
from ..core import Harness

RUST = r'''
#[cfg(kani)]
mod c12 {
    use super::*;
    use rrtk::streams::control::*;
''' + hist.RUST + r'''
    /// stand-in for powf: an injective bit mixer. Decides WHICH arguments reach powf and where its result flows.
    fn mix_powf(x: f32, y: f32) -> f32 { f32::from_bits(x.to_bits().rotate_left(7) ^ y.to_bits().wrapping_mul(0x9E37_79B1)) }

    // ---- EWMA, f32 and Quantity variants on the same history: prev*(1-L) + new*L, L = 1 - powf(1 - s, dt)
    #[kani::proof]
    #[kani::stub(f32::powf, mix_powf)]
    #[kani::unwind(9)]
    fn c12_ewma() {
        let k = sk(0) as usize;
        let (um, us) = sym_unit60();
        let mut evf = [Ev::None; KMAX];
        let mut evq = [Ev::None; KMAX];
        let mut i = 0;
        while i < k {
            evf[i] = ev_f32(sk(1 + i));
            evq[i] = match evf[i] { Ev::Some(t, x) => Ev::Some(t, Quantity::new(x, Unit::new(um, us))), Ev::None => Ev::None, Ev::Err(e) => Ev::Err(e) };
            i += 1;
        }
        let mut sf = Script::<f32, KMAX>::new(evf);
        let mut sq = Script::<Quantity, KMAX>::new(evq);
        let (rf, rq) = (ptr_ref(&mut sf), ptr_ref(&mut sq));
        let s = sym_f32();
        let mut ef: EWMAStream<f32, _, E> = EWMAStream::new(rf.clone(), s);
        let mut eq: EWMAStream<Quantity, _, E> = EWMAStream::new(rq.clone(), s);
        // spec state
        let mut val: Result<Option<(i64, f32)>, E> = Ok(None);
        let mut i = 0;
        while i < k {
            rf.borrow_mut().idx = i;
            rq.borrow_mut().idx = i;
            let (res_f, res_q) = (ef.update(), eq.update());      // must not panic on any history
            match evf[i] {
                Ev::Err(e) => { val = Err(e); }
                Ev::None => { if val.is_err() { val = Ok(None); } }      // absent is ignored but clears a cached error
                Ev::Some(t, x) => {
                    let (pt, pv) = match val { Ok(Some(p)) => p, _ => (t, x) };
                    let lambda = 1.0 - mix_powf(1.0 - s, secs(t - pt));
                    val = Ok(Some((t, pv * (1.0 - lambda) + x * lambda)));
                }
            }
            vk_assert!(upd_ok(res_f, err_of(evf[i])) && upd_ok(res_q, err_of(evf[i])), "C12.ewma.update_result");
            let want_f: Output<f32, E> = match val { Err(e) => Err(Error::Other(e)), Ok(None) => Ok(None), Ok(Some((t, v))) => Ok(Some(Datum::new(Time(t), v))) };
            let want_q: Output<Quantity, E> = match val { Err(e) => Err(Error::Other(e)), Ok(None) => Ok(None), Ok(Some((t, v))) => Ok(Some(Datum::new(Time(t), Quantity::new(v, Unit::new(um, us))))) };
            vk_assert!(out_same_f32(&ef.get(), &want_f), "C12.ewma.f32_value_time_category");
            vk_assert!(out_same_q(&eq.get(), &want_q), "C12.ewma.quantity_variant_same_numbers_and_unit");
            i += 1;
        }
        vk_end!();
    }
    // ---- EWMA: the first sample is returned unchanged (CBMC's own powf model gives x^0 == 1), finite sample
    #[kani::proof]
    fn c12_ewma_first_sample() {
        let (t, x, s) = (sym_time(), sym_fin(), sym_f32());
        let mut g = One(Ev::Some(t, x));
        let mut e: EWMAStream<f32, _, E> = EWMAStream::new(ptr_ref(&mut g), s);
        vk_assert!(e.update() == Ok(()), "C12.ewma.first_update_ok");
        vk_assert!(match e.get() { Ok(Some(d)) => d.time.0 == t && veq(d.value, x), _ => false }, "C12.ewma.first_sample_unchanged");
        vk_end!();
    }
    // ---- moving average: first update from the empty state, window and sample symbolic: never panics for a positive window
    #[kani::proof]
    #[kani::unwind(4)]
    fn c12_mavg_first() {
        let w: i64 = kani::any();
        kani::assume(w > 0 && w < (1i64 << 60));
        let (um, us) = sym_unit60();
        let kind = sk(0);
        let evf = ev_f32(kind);
        let evq = match evf { Ev::Some(t, x) => Ev::Some(t, Quantity::new(x, Unit::new(um, us))), Ev::None => Ev::None, Ev::Err(e) => Ev::Err(e) };
        let (mut gf, mut gq) = (One(evf), One(evq));
        let mut mf: MovingAverageStream<f32, _, E> = MovingAverageStream::new(ptr_ref(&mut gf), Time(w));
        let mut mq: MovingAverageStream<Quantity, _, E> = MovingAverageStream::new(ptr_ref(&mut gq), Time(w));
        let (rf, rq) = (mf.update(), mq.update());
        vk_assert!(upd_ok(rf, err_of(evf)) && upd_ok(rq, err_of(evf)), "C12.mavg.update_result");
        match evf {
            Ev::Some(t, x) => {
                let wt = secs(t - (t - w));
                vk_assert!(match mf.get() { Ok(Some(d)) => d.time.0 == t && same(d.value, (0.0 + x * wt) / secs(w)), _ => false }, "C12.mavg.f32_single_sample_weighted_by_window");
                vk_assert!(match mq.get() { Ok(Some(d)) => d.time.0 == t && same(d.value.value, (x * wt) / secs(w)) && d.value.unit == Unit::new(um, us), _ => false }, "C12.mavg.quantity_single_sample");
            }
            Ev::None => { vk_assert!(mf.get() == Ok(None) && mq.get() == Ok(None), "C12.mavg.absent_before_data"); }
            Ev::Err(e) => { vk_assert!(mf.get() == Err(Error::Other(e)) && mq.get() == Err(Error::Other(e)), "C12.mavg.error_reported"); }
        }
        vk_end!();
        core::mem::forget(mf); core::mem::forget(mq);
    }
    // ---- moving average on a CONCRETE timing schedule (skeleton: window, kinds, times in ns) with symbolic sample values:
    // weights are the time each sample covers inside the window (non-negative, summing to the window on the integer side)
    #[kani::proof]
    #[kani::unwind(12)]
    fn c12_mavg_schedule() {
        let k = sk(0) as usize;
        let w = sk(1) as i64;
        let mut evf = [Ev::None; KMAX];
        let mut i = 0;
        while i < k {
            evf[i] = match sk(2 + 2 * i) { 0 => Ev::Some(sk(3 + 2 * i) as i64, sym_f32()), 1 => Ev::None, _ => Ev::Err(kani::any()) };
            i += 1;
        }
        let mut sf = Script::<f32, KMAX>::new(evf);
        let rf = ptr_ref(&mut sf);
        let mut mf: MovingAverageStream<f32, _, E> = MovingAverageStream::new(rf.clone(), Time(w));
        // the Quantity implementation (a separate impl block in rrtk) on the same schedule and numbers, arbitrary unit
        let (um, us) = sym_unit60();
        let mut evq = [Ev::None; KMAX];
        let mut i = 0;
        while i < k {
            evq[i] = match evf[i] { Ev::Some(t, x) => Ev::Some(t, Quantity::new(x, Unit::new(um, us))), Ev::None => Ev::None, Ev::Err(e) => Ev::Err(e) };
            i += 1;
        }
        let mut sq = Script::<Quantity, KMAX>::new(evq);
        let rq = ptr_ref(&mut sq);
        let mut mq: MovingAverageStream<Quantity, _, E> = MovingAverageStream::new(rq.clone(), Time(w));
        let mut valq: Option<f32> = None;
        // spec state: samples currently inside the window, oldest first
        let mut q: [(i64, f32); KMAX] = [(0, 0.0); KMAX];
        let mut n = 0usize;
        let mut val: Result<Option<(i64, f32)>, E> = Ok(None);
        let mut i = 0;
        while i < k {
            rf.borrow_mut().idx = i;
            let res = mf.update();          // must not panic
            rq.borrow_mut().idx = i;
            let resq = mq.update();         // must not panic
            match evf[i] {
                Ev::Err(e) => { val = Err(e); n = 0; }
                Ev::None => { if val.is_err() { val = Ok(None); } }
                Ev::Some(t, x) => {
                    q[n] = (t, x); n += 1;
                    let start = t - w;
                    let mut drop_n = 0;
                    while drop_n < n && q[drop_n].0 <= start { drop_n += 1; }
                    let mut j = 0;
                    while j + drop_n < n { q[j] = q[j + drop_n]; j += 1; }
                    n -= drop_n;
                    let mut acc = 0.0f32;
                    let mut accq = 0.0f32;
                    let mut total: i64 = 0;
                    let mut j = 0;
                    while j < n {
                        let from = if j == 0 { start } else { q[j - 1].0 };
                        vk_assert!(q[j].0 - from >= 0, "C12.mavg.weights_non_negative");
                        total += q[j].0 - from;
                        acc += q[j].1 * secs(q[j].0 - from);
                        if j == 0 { accq = q[j].1 * secs(q[j].0 - from); } else { accq += q[j].1 * secs(q[j].0 - from); }
                        j += 1;
                    }
                    vk_assert!(total == w, "C12.mavg.weights_sum_to_window");
                    val = Ok(Some((t, acc / secs(w))));
                    valq = Some(accq / secs(w));
                }
            }
            vk_assert!(upd_ok(res, err_of(evf[i])), "C12.mavg.update_result");
            let want: Output<f32, E> = match val { Err(e) => Err(Error::Other(e)), Ok(None) => Ok(None), Ok(Some((t, v))) => Ok(Some(Datum::new(Time(t), v))) };
            vk_assert!(out_same_f32(&mf.get(), &want), "C12.mavg.time_weighted_average");
            vk_assert!(upd_ok(resq, err_of(evf[i])), "C12.mavg.quantity_update_result");
            let wantq: Output<Quantity, E> = match (val, valq) {
                (Err(e), _) => Err(Error::Other(e)),
                (Ok(Some((t, _))), Some(v)) => Ok(Some(Datum::new(Time(t), Quantity::new(v, Unit::new(um, us))))),
                _ => Ok(None),
            };
            vk_assert!(out_same_q(&mq.get(), &wantq), "C12.mavg.quantity_time_weighted_average_and_unit");
            i += 1;
        }
        vk_end!();
        core::mem::forget(mf); core::mem::forget(mq);
    }
}
'''


def schedules(ctx):
    """Concrete timing schedules (window ns, [(kind, t ns)...]) with non-decreasing, possibly repeated timestamps."""
    ms = 1_000_000
    # Only schedules in which at most ONE sample is inside the deque at any time (present samples separated by errors):
    # with two queued samples CBMC's symex of the heap-backed VecDeque/Vec code needs > 100 s and a 760 MB formula
    # with quantifiers (measured), so longer windows are outside the claim.
    base = [
        (10 * ms, [(0, 100 * ms), (2, 0), (0, 104 * ms)]),                        # error clears the window
        (10 * ms, [(2, 0), (1, 0), (0, 104 * ms)]),                               # absent after error clears the cached error
        (10 * ms, [(0, 100 * ms), (1, 0), (2, 0)]),                               # absent is ignored, then error
        (1, [(0, 7), (2, 0), (0, 7)]),                                            # 1 ns window, repeated timestamp across an error
    ]
    import os
    if os.environ.get("VK_C12_MULTI"):
        # experiment knob (never set by a registered command): two samples queued inside the window
        base = [(10 * ms, [(0, 100 * ms), (0, 104 * ms)])]
    rng = ctx.rng
    for _ in range(0 if os.environ.get("VK_C12_MULTI") else (2 if ctx.quick else 8)):
        w = rng.choice([1, 2, 5, 10, 50]) * ms
        t = 100 * ms
        evs = []
        last_present = False
        for _ in range(3 if ctx.quick else 4):
            t += rng.choice([0, 1, 2, 3, 7, 20]) * ms
            kind = rng.choice([1, 2]) if last_present else rng.choice([0, 0, 1, 2])
            if kind == 2:
                last_present = False
            elif kind == 0:
                last_present = True
            evs.append((kind, t if kind == 0 else 0))
        base.append((w, evs))
    sks = []
    for w, evs in base:
        sk = [len(evs), w]
        for kind, t in evs:
            sk += [kind, t]
        sks.append(tuple(sk))
    return sks


def spec(ctx):
    K = 3 if ctx.quick else 4
    hsk = hist.histories(K)
    sch = schedules(ctx)
    hs = [
        Harness("c12_ewma", "e2", unwind=9, skeletons=hsk, stubs=True,
                clause="EWMA f32 + Quantity variants on every history of %d events: value (powf stubbed), time, category, identical numbers, no panic" % K),
        Harness("c12_ewma_first_sample", "e1", timeout=300, clause="first sample returned unchanged (finite sample; CBMC's powf model: x^0 == 1)"),
        Harness("c12_mavg_first", "e2", unwind=4, skeletons=[(0,), (1,), (2,)], clause="moving average, first update, symbolic positive window and sample: no panic, value, time"),
        Harness("c12_mavg_schedule", "e2", unwind=12, skeletons=sch, timeout=300,
                clause="moving average on %d concrete timing schedules, symbolic sample values, f32 and Quantity (arbitrary unit) implementations: exact time-weighted average, unit preserved, weights >= 0 summing to the window, no panic" % len(sch)),
    ]
    return {
        "crates": [{"rust": RUST, "harnesses": hs, "stubbing": True}],
        "exhaustive": False,
        "functions": ["EWMAStream<f32>::{update,get}", "EWMAStream<Quantity>::{update,get}", "MovingAverageStream<f32>::{update,get}", "MovingAverageStream<Quantity>::{update,get}"],
        "bounds": {"EWMA history length": K, "moving-average timing": "first update fully symbolic; longer histories ONLY on the %d concrete schedules listed in skeleton_space (seeded)" % len(sch),
                   "values": "all f32 samples and smoothing constants; |t| < 2^60"},
        "skeleton_space": {"ewma histories": len(hsk), "moving-average schedules [k, window_ns, (kind, t_ns)*]": [list(s) for s in sch]},
        "assumptions": ["powf replaced by an injective bit mixer in c12_ewma (argument routing, not its value)",
                        "f32 and Quantity moving averages differ only by a leading `0.0 +`, which preserves every f32 value (IEEE)"],
        "not_decided": ["convexity / 'constant in => constant out' (rounding clauses)", "the moving average with two or more samples inside the window (weights, telescoping sum, no-panic): CBMC's symex of the heap-backed VecDeque/Vec "
                        "needs > 100 s and produces a 760 MB quantified formula for 3 samples (measured) - only single-sample windows are decided",
                        "accuracy of powf"],
    }
