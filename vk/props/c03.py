"""C03 Combined data carry the newest contributing timestamp; selection picks newest."""
import os
import re

from .. import core
from ..core import Harness

OPSYM = {"Add": "+", "Sub": "-", "Mul": "*", "Div": "/"}
ASSIGN = {"AddAssign": "+", "SubAssign": "-", "MulAssign": "*", "DivAssign": "/"}
_HDR = re.compile(r"^impl(?P<gen><.*>)? (?P<tr>\w+?)(?:<(?P<rhs>Datum<f32>|f32|T)>)? for Datum<(?P<lhs>T|State|Command)> \{$", re.M)


def parse(repo):
    src = open(os.path.join(repo, "src", "datum.rs")).read()
    impls, unknown = [], []
    for m in re.finditer(r"^impl.*for Datum<.*\{$", src, re.M):
        line = m.group(0)
        h = _HDR.match(line)
        ln = src[:m.start()].count("\n") + 1
        if not h or h.group("tr") not in list(OPSYM) + list(ASSIGN) + ["Neg", "Not"]:
            if "OptionDatumExt" in line:
                continue
            unknown.append("datum.rs:%d %s" % (ln, line))
            continue
        impls.append({"trait": h.group("tr"), "rhs": h.group("rhs"), "lhs": h.group("lhs"), "line": ln})
    return impls, unknown


def arm(im, payload):
    """payload: 'Tr' (generic instantiation, decides by parametricity) or 'f32'."""
    tr, rhs, lhs = im["trait"], im["rhs"], im["lhs"]
    name = "%s_%s_%s" % (lhs, tr, (rhs or "Self").replace("<", "").replace(">", ""))
    if lhs == "T":
        if payload == "Tr":
            mk1, mk2, cmp_ = "Tr::leaf(1)", "Tr::leaf(2)", "g.value == %s"
        else:
            mk1, mk2, cmp_ = "sym_f32()", "sym_f32()", "same(g.value, %s)"
        lt = payload
    elif lhs == "State":
        mk1, mk2, cmp_ = "State::new_raw(sym_f32(), sym_f32(), sym_f32())", "sym_f32()", "same_state(g.value, %s)"
        lt = "State"
    else:
        mk1, mk2, cmp_ = "Command::new(sym_kind(), sym_f32())", "sym_f32()", "same_cmd(g.value, %s)"
        lt = "Command"
    pre = "let t1: i64 = kani::any(); let t2: i64 = kani::any(); let x = %s; let a = Datum::new(Time(t1), x);" % mk1
    if tr in ("Neg", "Not"):
        op = "-" if tr == "Neg" else "!"
        return name, ("%s let g = %sa; vk_assert!(g.time.0 == t1, \"C03.%s.time_kept\"); vk_assert!(%s, \"C03.%s.value\");"
                      % (pre, op, name, cmp_ % ("%sx" % op), name))
    assign = tr in ASSIGN
    op = ASSIGN[tr] if assign else OPSYM[tr]
    datum_rhs = rhs is None or rhs.startswith("Datum")
    if datum_rhs:
        pre += " let y = %s; let b = Datum::new(Time(t2), y);" % mk2
        want_t = "max_t(t1, t2)"
        tag_t = "time_is_newest"
    else:
        pre += " let y = %s; let b = y;" % mk2
        want_t = "t1"
        tag_t = "time_kept_with_scalar"
    got = ("let mut g = a; g %s= b;" % op) if assign else ("let g = a %s b;" % op)
    return name, ("%s %s vk_assert!(g.time.0 == %s, \"C03.%s.%s\"); vk_assert!(%s, \"C03.%s.value\");"
                  % (pre, got, want_t, name, tag_t, cmp_ % ("x %s y" % op), name))


def harness_fn(name, arms):
    body = ["    #[kani::proof]", "    fn %s() {" % name, "        match sk(0) {"]
    for i, (_, a) in enumerate(arms):
        body.append("            %d => { %s }" % (i, a))
    body += ["            _ => { kani::assume(false); }", "        }", "        vk_end!();", "    }"]
    return "\n".join(body)


TAIL = r'''
    // latest(): result is one of the candidates, none strictly newer (tie-breaking is not part of the contract)
    #[kani::proof]
    fn c03_latest() {
        let (t1, t2): (i64, i64) = (kani::any(), kani::any());
        let g = latest(Datum::new(Time(t1), Tr::leaf(1)), Datum::new(Time(t2), Tr::leaf(2)));
        vk_assert!((g.time.0 == t1 && g.value == Tr::leaf(1)) || (g.time.0 == t2 && g.value == Tr::leaf(2)), "C03.latest.is_a_candidate");
        vk_assert!(g.time.0 >= t1 && g.time.0 >= t2, "C03.latest.none_newer");
        vk_end!();
    }
    // replace-if-older helpers: replace exactly when strictly newer (or empty), truthful return value
    #[kani::proof]
    fn c03_replace() {
        let (t1, t2): (i64, i64) = (kani::any(), kani::any());
        let mut d = Datum::new(Time(t1), Tr::leaf(1));
        let r = d.replace_if_older_than(Datum::new(Time(t2), Tr::leaf(2)));
        vk_assert!(r == (t2 > t1), "C03.replace_if_older_than.return");
        vk_assert!(if t2 > t1 { d == Datum::new(Time(t2), Tr::leaf(2)) } else { d == Datum::new(Time(t1), Tr::leaf(1)) }, "C03.replace_if_older_than.effect");
        let has: bool = kani::any();
        let mut o: Option<Datum<Tr>> = if has { Some(Datum::new(Time(t1), Tr::leaf(1))) } else { None };
        let r = o.replace_if_none_or_older_than(Datum::new(Time(t2), Tr::leaf(2)));
        let should = !has || t2 > t1;
        vk_assert!(r == should, "C03.replace_if_none_or_older_than.return");
        vk_assert!(if should { o == Some(Datum::new(Time(t2), Tr::leaf(2))) } else { o == Some(Datum::new(Time(t1), Tr::leaf(1))) }, "C03.replace_if_none_or_older_than.effect");
        let has2: bool = kani::any();
        let cand: Option<Datum<Tr>> = if has2 { Some(Datum::new(Time(t2), Tr::leaf(2))) } else { None };
        let mut o2: Option<Datum<Tr>> = if has { Some(Datum::new(Time(t1), Tr::leaf(1))) } else { None };
        let before = o2;
        let r2 = o2.replace_if_none_or_older_than_option(cand);
        let should2 = has2 && (!has || t2 > t1);
        vk_assert!(r2 == should2, "C03.replace_option.return");
        vk_assert!(if should2 { o2 == cand } else { o2 == before }, "C03.replace_option.effect");
        vk_end!();
    }
}
'''


def stream_part():
    """Stream-, terminal-level timestamp clauses: the C02 / C09 harnesses re-instantiated under C03 tags."""
    import itertools
    from . import c02, c09
    pairs = [(k, n) for n in (2, 3) for k in ("sum", "product", "latest")]
    rust = c02.RUST.replace("@NARY@", "\n".join(c02.nary_fn(n, k) for k, n in pairs))
    rust = rust.replace("mod c02 {", "mod c03s {").replace("fn c02_", "fn c03s_").replace('"C02.', '"C03.streams.')
    k = rust.rstrip().rfind("}")
    rust = rust[:k] + c09.READS.replace("fn c09_pair_reads", "fn c03s_terminal_reads").replace('"C09.pair.', '"C03.terminal.') + "}\n"
    hs = [Harness("c03s_%s_%d" % (k, n), "e1", unwind=n + 2, timeout=300, clause="%s stream with %d inputs: newest contributing timestamp / newest candidate" % (k, n)) for k, n in pairs]
    hs += [Harness("c03s_binary", "e1", unwind=4, clause="Sum2/Product2/Difference/Quotient: newest timestamp of the present operands"),
           Harness("c03s_logic", "e1", clause="And/Or/Not: newest timestamp of the present inputs"),
           Harness("c03s_terminal_reads", "e2", timeout=300, tolerant=False, skeletons=list(itertools.product([0, 1], repeat=5)), clause="terminal state averaging / command selection timestamps")]
    return {"variant": "streams", "rust": rust, "harnesses": hs, "stubbing": True}


def device_part():
    """Device-update timestamp clause: the C08 state-projection harnesses (which assert value AND newest contributing time) under C03 tags."""
    import itertools
    from . import c08
    rust = c08.RUST.replace("mod c08 {", "mod c03d {").replace("fn c08_", "fn c03d_").replace('"C08.', '"C03.devices.')
    b2 = list(itertools.product([0, 1], repeat=2))
    hs = [Harness("c03d_invert", "e2", unwind=4, skeletons=b2, clause="inverter update: projected states stamped with the newest contributing time"),
          Harness("c03d_gear_train", "e2", unwind=4, skeletons=b2, clause="gear train update: newest contributing time"),
          Harness("c03d_axle_2", "e2", unwind=8, skeletons=list(itertools.product([0, 1], repeat=2)), clause="axle (2 terminals): newest time among terminals holding data, also for negative times"),
          Harness("c03d_axle_3", "e2", unwind=8, skeletons=list(itertools.product([0, 1], repeat=3)), clause="axle (3 terminals)"),
          Harness("c03d_differential", "e2", unwind=4, skeletons=[(m,) + p for m in range(4) for p in [(1, 1, 1)]], clause="differential, all branches present, each mode: newest contributing time")]
    return {"variant": "devices", "rust": rust, "harnesses": hs}


def spec(ctx):
    impls, unknown = parse(core.REPO)
    tr_arms = [arm(im, "Tr") for im in impls if im["lhs"] == "T"]
    f_arms = [arm(im, "f32") for im in impls if im["lhs"] == "T" and im["trait"] != "Not"]
    sc_arms = [arm(im, None) for im in impls if im["lhs"] != "T"]
    rust = "\n".join(["#[cfg(kani)]", "mod c03 {", "    use super::*;",
                      harness_fn("c03_datum_generic", tr_arms),
                      harness_fn("c03_datum_f32", f_arms),
                      harness_fn("c03_datum_state_command", sc_arms)]) + TAIL
    hs = [
        Harness("c03_datum_generic", "e1", skeletons=[(i,) for i in range(len(tr_arms))], clause="generic Datum operator impls instantiated with the trace payload (parametric in T)"),
        Harness("c03_datum_f32", "e2", tolerant=False, skeletons=[(i,) for i in range(len(f_arms))], clause="the same impls instantiated with f32"),
        Harness("c03_datum_state_command", "e2", tolerant=False, skeletons=[(i,) for i in range(len(sc_arms))], clause="State / Command x f32 / Datum<f32> special impls"),
        Harness("c03_latest", "e1", clause="latest()"),
        Harness("c03_replace", "e1", clause="replace_if_older_than, replace_if_none_or_older_than(_option)"),
    ]
    return {
        "crates": [{"rust": rust, "harnesses": hs}, stream_part(), device_part()],
        "problems": ["unclassified Datum impl: " + u for u in unknown],
        "functions": ["%d operator impls of Datum parsed from datum.rs" % len(impls), "latest", "Datum::replace_if_older_than",
                      "OptionDatumExt::{replace_if_none_or_older_than, replace_if_none_or_older_than_option}"],
        "bounds": {"timestamps": "all i64 pairs", "payload": "trace payload (any T by parametricity) + f32/State/Command all bit patterns"},
        "skeleton_space": {"generic arms": len(tr_arms), "f32 arms": len(f_arms), "State/Command arms": len(sc_arms)},
        "assumptions": ["device COMMAND-relay timestamps are asserted in the C13 check (same machinery)"],
        "not_decided": [],
    }
