"""C01 Dimensional analysis: unit exponents compose additively, mismatches panic."""
import os
import re

from .. import core, gen_dim
from ..core import Harness

PANIC_DIM = r"assertion failed: self\.eq_assume_true\(rhs\)"


def parse_constants(repo):
    src = open(os.path.join(repo, "src", "dimensions", "constants.rs")).read()
    out = []
    for m in re.finditer(r"pub const (\w+): Unit = Unit::new\((-?\d+), (-?\d+)\);", src):
        out.append((m.group(1), int(m.group(2)), int(m.group(3))))
    n_decl = len(re.findall(r"pub const \w+: Unit", src))
    return out, n_decl


def exps_from_name(name):
    """(mm, s) exponents stated by a constant's NAME; None if the name does not follow the grammar."""
    if name == "DIMENSIONLESS":
        return (0, 0)

    def factors(part, sign):
        toks = part.split("_") if part else []
        e = {"MILLIMETER": 0, "SECOND": 0}
        i = 0
        seen = set()
        while i < len(toks):
            base = toks[i]
            if base not in e or base in seen:
                return None
            seen.add(base)
            p = 1
            if i + 1 < len(toks) and toks[i + 1] in ("SQUARED", "CUBED"):
                p = 2 if toks[i + 1] == "SQUARED" else 3
                i += 1
            e[base] += sign * p
            i += 1
        return e
    if name.startswith("INVERSE_"):
        num, den = "", name[len("INVERSE_"):]
    elif "_PER_" in name:
        num, den = name.split("_PER_", 1)
    else:
        num, den = name, ""
    a, b = factors(num, 1), factors(den, -1)
    if a is None or b is None or (not num and not den):
        return None
    return (a["MILLIMETER"] + b["MILLIMETER"], a["SECOND"] + b["SECOND"])


def spec(ctx):
    impls, groups, panic, unclassified = gen_dim.build(core.REPO)
    consts, n_decl = parse_constants(core.REPO)
    problems = list(unclassified)
    if n_decl != len(consts):
        problems.append("constants.rs: %d Unit constants declared but only %d parsed" % (n_decl, len(consts)))
    const_asserts = []
    seen = {}
    for name, m, s in consts:
        e = exps_from_name(name)
        if e is None:
            problems.append("constant name not understood: " + name)
            continue
        const_asserts.append('vk_assert!(%s == Unit::new(%d, %d), "C01.const.%s");' % (name, e[0], e[1], name))
        seen.setdefault(e, []).append(name)
    grid_missing = [(m, s) for m in range(-3, 4) for s in range(-3, 4) if (m, s) not in seen]
    dup = {k: v for k, v in seen.items() if len(v) > 1}

    unit_arms = [gen_dim.gen_arm(im, "unit") for im in groups["unit"]]
    base_arms = [gen_dim.gen_arm(im, "base") for im in groups["base"]]
    conv_arms = [gen_dim.gen_arm(im, "conv") for im in groups["conv"]]
    panic_arms = [gen_dim.gen_panic_arm(im) for im in panic]
    # ordering forms (PartialOrd) under unequal units must panic too
    ord_forms = ["a.partial_cmp(&b).is_some()", "a < b", "a <= b", "a > b", "a >= b"]
    for f in ord_forms:
        panic_arms.append("%s %s kani::assume(!(a_m == b_m && a_s == b_s)); kani::cover!(true, \"vk_end\"); let g = %s;"
                          % (gen_dim._mk("Quantity", "a"), gen_dim._mk("Quantity", "b"), f))
    rust = ["#[cfg(kani)]", "mod c01 {", "    use super::*;",
            gen_dim.harness_fn("c01_unit_ops", unit_arms),
            gen_dim.harness_fn("c01_quantity_ops", base_arms),
            gen_dim.harness_fn("c01_mixed_ops", conv_arms),
            gen_dim.harness_fn("c01_mismatch_panics", panic_arms, panic=True),
            r'''
    // Quantity::abs keeps the unit; value = f32 abs
    #[kani::proof]
    fn c01_abs_ord_eq() {
        let (m, s) = (kani::any::<i8>(), kani::any::<i8>());
        let (x, y) = (sym_f32(), sym_f32());
        let a = Quantity::new(x, Unit::new(m, s));
        let b = Quantity::new(y, Unit::new(m, s));
        let g = a.abs();
        vk_assert!(same(g.value, x.abs()) && g.unit == Unit::new(m, s), "C01.abs");
        // ordering with equal units is the f32 ordering and never panics
        vk_assert!(a.partial_cmp(&b) == x.partial_cmp(&y), "C01.partial_cmp");
        vk_assert!((a < b) == (x < y) && (a <= b) == (x <= y) && (a > b) == (x > y) && (a >= b) == (x >= y), "C01.ord_ops");
        // equality is value and unit
        let (m2, s2) = (kani::any::<i8>(), kani::any::<i8>());
        let c = Quantity::new(y, Unit::new(m2, s2));
        vk_assert!((a == c) == (x == y && m == m2 && s == s2), "C01.partial_eq");
        vk_assert!((Unit::new(m, s) == Unit::new(m2, s2)) == (m == m2 && s == s2), "C01.unit_eq");
        vk_assert!(Unit::new(m, s).const_eq(&Unit::new(m2, s2)) == (m == m2 && s == s2), "C01.unit_const_eq");
        vk_assert!(Unit::new(m, s).eq_assume_true(&Unit::new(m2, s2)) == (m == m2 && s == s2), "C01.unit_eq_assume_true");
        vk_assert!(Unit::new(m, s).eq_assume_false(&Unit::new(m2, s2)) == (m == m2 && s == s2), "C01.unit_eq_assume_false");
        vk_assert!(same_q(Quantity::dimensionless(x), Quantity::new(x, Unit::new(0, 0))), "C01.dimensionless_ctor");
        vk_assert!(same(f32::from(a), x), "C01.f32_from_quantity");
        vk_end!();
    }
    // named constants have the exponents their names state
    #[kani::proof]
    fn c01_constants() {
        @CONSTS@
        vk_end!();
    }
    // position / velocity / acceleration <-> mm, mm/s, mm/s^2 in both directions; pieces
    #[kani::proof]
    fn c01_kind_units() {
        let k = sym_kind();
        let e = match k { PositionDerivative::Position => 0i8, PositionDerivative::Velocity => -1, PositionDerivative::Acceleration => -2 };
        vk_assert!(Unit::from(k) == Unit::new(1, e), "C01.kind_to_unit");
        vk_assert!(PositionDerivative::try_from(Unit::new(1, e)) == Ok(k), "C01.unit_to_kind");
        let (m, s) = (kani::any::<i8>(), kani::any::<i8>());
        let r = PositionDerivative::try_from(Unit::new(m, s));
        vk_assert!(r.is_ok() == (m == 1 && s <= 0 && s >= -2), "C01.unit_to_kind_domain");
        if let Ok(kk) = r { vk_assert!(Unit::from(kk) == Unit::new(m, s), "C01.unit_kind_roundtrip"); }
        let x = sym_f32();
        let q = Quantity::from(Command::new(k, x));
        vk_assert!(same(q.value, x) && q.unit == Unit::new(1, e), "C01.command_to_quantity");
        let c = Command::try_from(Quantity::new(x, Unit::new(m, s)));
        vk_assert!(c.is_ok() == (m == 1 && s <= 0 && s >= -2), "C01.quantity_to_command_domain");
        if let Ok(cc) = c { vk_assert!(same(f32::from(cc), x) && Unit::from(PositionDerivative::from(cc)) == Unit::new(m, s), "C01.quantity_to_command"); }
        let pieces = [MotionProfilePiece::BeforeStart, MotionProfilePiece::InitialAcceleration, MotionProfilePiece::ConstantVelocity,
                      MotionProfilePiece::EndAcceleration, MotionProfilePiece::Complete];
        let want: [Option<i8>; 5] = [None, Some(-2), Some(-1), Some(-2), None];
        let i: usize = kani::any();
        kani::assume(i < 5);
        let u = Unit::try_from(pieces[i]);
        match want[i] { None => { vk_assert!(u.is_err(), "C01.piece_to_unit_none"); } Some(ee) => { vk_assert!(u == Ok(Unit::new(1, ee)), "C01.piece_to_unit"); } }
        let pd = PositionDerivative::try_from(pieces[i]);
        match want[i] { None => { vk_assert!(pd.is_err(), "C01.piece_to_kind_none"); } Some(ee) => { vk_assert!(match pd { Ok(p) => Unit::from(p) == Unit::new(1, ee), Err(_) => false }, "C01.piece_to_kind"); } }
        vk_end!();
    }
}
'''.replace("@CONSTS@", "\n        ".join(const_asserts))]
    hs = [
        Harness("c01_unit_ops", "e1", skeletons=[(i,) for i in range(len(unit_arms))], clause="bare-Unit operators (generated from impl headers)"),
        Harness("c01_quantity_ops", "e2", tolerant=False, skeletons=[(i,) for i in range(len(base_arms))], clause="Quantity x Quantity operators: exponents and exact f32 value"),
        Harness("c01_mixed_ops", "e2", tolerant=False, skeletons=[(i,) for i in range(len(conv_arms))], clause="mixed Quantity/Time/DimensionlessInteger operators == Quantity operator after conversion"),
        Harness("c01_mismatch_panics", "e1", skeletons=[(i,) for i in range(len(panic_arms))], allow_fail=PANIC_DIM,
                clause="add/sub/ordering with different units panics (marker unreachable), every form"),
        Harness("c01_abs_ord_eq", "e1", clause="abs, ordering == f32 ordering under equal units (no panic), equality, eq helpers"),
        Harness("c01_constants", "e1", clause="every named constant == Unit::new(exponents parsed from its name)"),
        Harness("c01_kind_units", "e1", clause="PositionDerivative / Command / MotionProfilePiece <-> Unit / Quantity"),
    ]
    if grid_missing:
        problems.append("no named constant for exponents %s" % grid_missing[:5])
    if dup:
        problems.append("several constants state the same exponents: %s" % list(dup.values())[:3])
    return {
        "crates": [{"rust": "\n".join(rust), "harnesses": hs}],
        "problems": problems,
        "functions": ["every impl {Add,Sub,Mul,Div,Neg,*Assign} for {Unit,Quantity} and the mixed Time/DimensionlessInteger forms in dimensions.rs (%d impls parsed)" % len(impls),
                      "Quantity::{abs, partial_cmp, eq, dimensionless}", "Unit::{new, const_eq, eq_assume_*}", "%d constants of dimensions/constants.rs" % len(consts),
                      "Unit::from(PositionDerivative)", "PositionDerivative::try_from(Unit|MotionProfilePiece)", "Quantity::from(Command)", "Command::try_from(Quantity)", "Unit::try_from(MotionProfilePiece)"],
        "bounds": {"unit exponents": "|e| <= 60 for binary operators (i8 addition panics beyond +-63 in dev builds), all i8 elsewhere", "f32": "all bit patterns", "i64": "all values"},
        "skeleton_space": {"impl arms": {"unit": len(unit_arms), "quantity": len(base_arms), "mixed": len(conv_arms), "must-panic forms": len(panic_arms)}},
        "assumptions": ["dimension checking compiled in (dim_check_release); Kani models the dev profile"],
        "not_decided": ["exponent sums beyond i8 (checked-arithmetic panic)"],
    }
