"""C07 Motion profile is a valid trapezoid: continuous, within limits, reaches the goal."""
from .. import mp
from ..core import Harness
from ..dsl import lemma
from .c06 import CTOR_REJECTS

RUST = r'''
#[cfg(kani)]
mod c07 {
    use super::*;
''' + mp.RUST + r'''
    // (D1) the constructor's kinematics == the spec tree: sign choice, phase durations, truncation to ns
    #[kani::proof]
    fn c07_constructor_is_spec() {
        let i = sym_in();
        let m = build(&i);
        let p = parts(&m);
        let sign = if i.p1 < i.p0 { -1.0f32 } else { 1.0f32 };
        let mv = i.mv.abs() * sign;
        let ma = i.ma.abs() * sign;
        let t1f = (mv - i.v0) / ma;
        let d1 = (i.v0 + mv) / 2.0 * t1f;
        let dt3 = (i.v1 - mv) / (-ma);
        let d3 = (mv + i.v1) / 2.0 * dt3;
        let d2 = (i.p1 - i.p0) - (d1 + d3);
        let dt2 = d2 / mv;
        let t2f = t1f + dt2;
        let t3f = t2f + dt3;
        vk_assert!(same(p.ma, ma), "C07.ctor.acceleration_is_abs_max_acc_with_sign_of_displacement");
        vk_assert!(p.t1 == (t1f * 1_000_000_000.0) as i64, "C07.ctor.t1_from_velocity_change_over_acceleration");
        vk_assert!(p.t2 == (t2f * 1_000_000_000.0) as i64, "C07.ctor.t2_from_remaining_distance_over_cruise_velocity");
        vk_assert!(p.t3 == (t3f * 1_000_000_000.0) as i64, "C07.ctor.t3_adds_the_deceleration_time");
        vk_assert!(same(p.sp, i.p0) && same(p.sv, i.v0), "C07.ctor.start_state_kept");
        vk_assert!(same_cmd(p.end, Command::from(State::new_raw(i.p1, i.v1, i.a1))), "C07.ctor.end_command_from_end_state");
        // accepted => the three durations were non-negative
        vk_assert!(t1f >= 0.0 && dt3 >= 0.0 && dt2 >= 0.0, "C07.ctor.accepted_implies_non_negative_durations");
        vk_end!();
    }
    fn free_profile() -> (MotionProfile, Parts) { free_profile_with(None, None) }
    fn free_profile_with(t1c: Option<i64>, t2c: Option<i64>) -> (MotionProfile, Parts) {
        let (t1, t2, t3): (i64, i64, i64) = (match t1c { Some(x) => x, None => kani::any() }, match t2c { Some(x) => x, None => kani::any() }, kani::any());
        let (sp, sv, ma) = (sym_f32(), sym_f32(), sym_f32());
        let end = Command::new(sym_kind(), sym_f32());
        let m = MotionProfile::vk_from_parts(Quantity::new(sp, MILLIMETER), Quantity::new(sv, MILLIMETER_PER_SECOND), Time(t1), Time(t2), Time(t3),
                                            Quantity::new(ma, MILLIMETER_PER_SECOND_SQUARED), end);
        let p = Parts { sp, sv, t1, t2, t3, ma, end };
        kani::assume(sane(&p));
        (m, p)
    }
@PHASES@
    // (D3) exact f32 facts at t = 0 (finite parts, move not yet complete) and after completion
    #[kani::proof]
    fn c07_endpoints_exact() {
        let (m, p) = match sk(0) {
            // which phase contains t = 0 is fixed by the job's skeleton: the zero boundaries are CONCRETE zeros
            1 => free_profile(),
            2 => free_profile_with(Some(0), None),
            _ => free_profile_with(Some(0), Some(0)),
        };
        kani::assume(p.sp.is_finite() && p.sv.is_finite() && p.ma.is_finite());
        kani::assume(p.t1 >= 0 && p.t2 >= 0 && p.t3 >= 0);
        // which phase contains t = 0 is fixed by the job's skeleton before the accessors run
        match sk(0) {
            1 => kani::assume(p.t1 > 0),
            2 => kani::assume(p.t1 == 0 && p.t2 > 0),
            _ => kani::assume(p.t1 == 0 && p.t2 == 0 && p.t3 > 0),
        }
        if sk(1) == 0 {
            vk_assert!(match m.get_velocity(Time(0)) { Some(q) => veq(q.value, p.sv), None => false }, "C07.velocity_at_zero_is_start_velocity");
        } else if sk(1) == 1 {
            vk_assert!(match m.get_position(Time(0)) { Some(q) => veq(q.value, p.sp), None => false }, "C07.position_at_zero_is_start_position");
        }
        let t: i64 = kani::any();
        kani::assume(t >= 0 && t >= p.t1 && t >= p.t2 && t >= p.t3);
        if sk(1) == 2 { match p.end {
            Command::Position(x) => {
                vk_assert!(match m.get_position(Time(t)) { Some(q) => same(q.value, x), None => false }, "C07.after_completion_position_is_end_position");
                vk_assert!(match m.get_velocity(Time(t)) { Some(q) => same(q.value, 0.0), None => false }, "C07.after_completion_position_command_has_zero_velocity");
            }
            Command::Velocity(v) => { vk_assert!(match m.get_velocity(Time(t)) { Some(q) => same(q.value, v), None => false }, "C07.after_completion_velocity_is_end_velocity"); }
            Command::Acceleration(a) => { vk_assert!(match m.get_acceleration(Time(t)) { Some(q) => same(q.value, a), None => false }, "C07.after_completion_acceleration_is_end_acceleration"); }
        } }
        vk_end!();
    }



    // negating all positions and velocities negates every output exactly (two-run differential on the real code)
    #[kani::proof]
    fn c07_negation_symmetry() {
        let i = sym_in();
        kani::assume(i.p0 != i.p1);       // equal positions: sign choice is +1 for both runs (not a mirror image)
        let j = In { p0: -i.p0, v0: -i.v0, a0: -i.a0, p1: -i.p1, v1: -i.v1, a1: -i.a1, mv: i.mv, ma: i.ma };
        let (m1, m2) = (build(&i), build(&j));
        let (p1, p2) = (parts(&m1), parts(&m2));
        vk_assert!(p1.t1 == p2.t1 && p1.t2 == p2.t2 && p1.t3 == p2.t3, "C07.negation.same_phase_boundaries");
        vk_assert!(same(p1.ma, -p2.ma), "C07.negation.acceleration_negated");
        kani::assume(sane(&p1));
        let t: i64 = kani::any();
        let neg = |a: Option<Quantity>, b: Option<Quantity>| match (a, b) { (None, None) => true, (Some(x), Some(y)) => veq(x.value, -y.value), _ => false };
        vk_assert!(neg(m1.get_velocity(Time(t)), m2.get_velocity(Time(t))), "C07.negation.velocity_negated");
        vk_assert!(neg(m1.get_position(Time(t)), m2.get_position(Time(t))), "C07.negation.position_negated");
        vk_end!();
    }
}
'''


PHASES = {
    # phase: (assumption on t, expected acceleration, velocity, position) -- straight-line closed forms
    0: ("t < 0", "None", "None", "None"),
    1: ("t >= 0 && t < p.t1", "Some(p.ma)", "Some(p.ma * secs(t) + p.sv)", "Some(0.5 * p.ma * secs(t) * secs(t) + p.sv * secs(t) + p.sp)"),
    2: ("t >= 0 && t >= p.t1 && t < p.t2", "Some(0.0)", "Some(p.ma * secs(p.t1) + p.sv)",
        "Some(p.ma * (secs(p.t1) * secs(-p.t1 / 2 + t)) + p.sv * secs(t) + p.sp)"),
    3: ("t >= 0 && t >= p.t1 && t >= p.t2 && t < p.t3", "Some(-p.ma)", "Some(p.ma * secs(p.t1 + p.t2 - t) + p.sv)",
        "Some(p.ma * (secs(p.t1) * secs(-p.t1 / 2 + p.t2)) - 0.5 * p.ma * (secs(t - p.t2) * secs(t - 2 * p.t1 - p.t2)) + p.sv * secs(t) + p.sp)"),
    4: ("t >= 0 && t >= p.t1 && t >= p.t2 && t >= p.t3",
        "match p.end { Command::Acceleration(a) => Some(a), _ => Some(0.0) }",
        "match p.end { Command::Position(_) => Some(0.0), Command::Velocity(v) => Some(v), Command::Acceleration(_) => None }",
        "match p.end { Command::Position(x) => Some(x), _ => None }"),
}
PHASE_NAMES = ["before_start", "initial_acceleration", "constant_velocity", "end_acceleration", "complete"]


def phase_fn(ph):
    cond, a, v, x = PHASES[ph]
    return """
    // (D2) phase %d (%s): accessor values == the closed form of this phase, every query time in the phase, ARBITRARY parts
    #[kani::proof]
    fn c07_phase_%d() {
        let (m, p) = free_profile();
        let t: i64 = kani::any();
        kani::assume(%s);
        // one accessor per job (skeleton): an earlier obligation's assert-then-assume would otherwise burden the next query
        match sk(0) {
            0 => { let wa: Option<f32> = %s; vk_assert!(opt_same(m.get_acceleration(Time(t)), wa, MILLIMETER_PER_SECOND_SQUARED), "C07.acceleration_is_plus_minus_max_acc_or_zero_by_phase"); }
            1 => { let wv: Option<f32> = %s; vk_assert!(opt_same(m.get_velocity(Time(t)), wv, MILLIMETER_PER_SECOND), "C07.velocity_closed_form_by_phase"); }
            _ => { let wp: Option<f32> = %s; vk_assert!(opt_same(m.get_position(Time(t)), wp, MILLIMETER), "C07.position_closed_form_by_phase"); }
        }
        vk_end!();
    }
""" % (ph, PHASE_NAMES[ph], ph, cond, a, v, x)

S = "1000000000.0"


def lemmas():
    """Statements over the reals about the spec trees used above (t in seconds, no ns truncation).
    ma != 0, mv != 0; t1 = (mv - v0)/ma, d3 = (v1 - mv)/(-ma), d2 = ((p1 - p0) - (d1pos + d3pos))/mv, t2 = t1 + d2, t3 = t2 + d3."""
    V = {"p0", "v0", "p1", "v1", "mv", "ma", "t", "h", "t1", "t2", "t3", "d2", "d3"}
    defs = ["(not (= ma 0.0))", "(not (= mv 0.0))",
            "(= t1 (/ (- mv v0) ma))",
            "(= d3 (/ (- v1 mv) (- ma)))",
            "(= d2 (/ (- (- p1 p0) (+ (* (/ (+ v0 mv) 2.0) t1) (* (/ (+ mv v1) 2.0) d3))) mv))",
            "(= t2 (+ t1 d2))", "(= t3 (+ t2 d3))"]
    vel1 = "(+ (* ma %s) v0)"
    vel2 = "(+ (* ma t1) v0)"
    vel3 = "(+ (* ma (- (+ t1 t2) %s)) v0)"
    pos1 = "(+ (+ (* (* (* 0.5 ma) %s) %s) (* v0 %s)) p0)"
    pos2 = "(+ (+ (* ma (* t1 (+ (/ (- t1) 2.0) %s))) (* v0 %s)) p0)"
    pos3 = "(+ (+ (- (* ma (* t1 (+ (/ (- t1) 2.0) t2))) (* (* 0.5 ma) (* (- %s t2) (- (- %s (* 2.0 t1)) t2)))) (* v0 %s)) p0)"
    L = []
    L.append(lemma("C07.R.velocity_continuous_at_t1", V, set(), defs, "(= %s %s)" % (vel1 % "t1", vel2)))
    L.append(lemma("C07.R.velocity_continuous_at_t2", V, set(), defs, "(= %s %s)" % (vel2, vel3 % "t2")))
    L.append(lemma("C07.R.position_continuous_at_t1", V, set(), defs, "(= %s %s)" % (pos1 % ("t1", "t1", "t1"), pos2 % ("t1", "t1"))))
    L.append(lemma("C07.R.position_continuous_at_t2", V, set(), defs, "(= %s %s)" % (pos2 % ("t2", "t2"), pos3 % ("t2", "t2", "t2"))))
    L.append(lemma("C07.R.velocity_at_t3_is_end_velocity", V, set(), defs, "(= %s v1)" % (vel3 % "t3")))
    L.append(lemma("C07.R.position_at_t3_is_end_position", V, set(), defs, "(= %s p1)" % (pos3 % ("t3", "t3", "t3"))))
    L.append(lemma("C07.R.velocity_at_cruise_is_max_velocity_signed", V, set(), defs, "(= %s mv)" % vel2))
    # position is the time integral of velocity: velocity is piecewise linear, so the trapezoid rule is exact per phase
    th = "(+ t h)"
    L.append(lemma("C07.R.position_integrates_velocity_phase1", V, set(), defs,
                   "(= (- %s %s) (* h (/ (+ %s %s) 2.0)))" % (pos1 % (th, th, th), pos1 % ("t", "t", "t"), vel1 % "t", vel1 % th)))
    L.append(lemma("C07.R.position_integrates_velocity_phase2", V, set(), defs,
                   "(= (- %s %s) (* h %s))" % (pos2 % (th, th), pos2 % ("t", "t"), vel2)))
    L.append(lemma("C07.R.position_integrates_velocity_phase3", V, set(), defs,
                   "(= (- %s %s) (* h (/ (+ %s %s) 2.0)))" % (pos3 % (th, th, th), pos3 % ("t", "t", "t"), vel3 % "t", vel3 % th)))
    # speed limit: in each phase the velocity lies between its values at the phase ends
    L.append(lemma("C07.R.velocity_bounded_phase1", V, set(), defs + ["(>= t 0.0)", "(<= t t1)"],
                   "(and (<= (ite (<= v0 mv) v0 mv) %s) (<= %s (ite (<= v0 mv) mv v0)))" % (vel1 % "t", vel1 % "t")))
    L.append(lemma("C07.R.velocity_bounded_phase3", V, set(), defs + ["(>= t t2)", "(<= t t3)", "(>= d3 0.0)"],
                   "(and (<= (ite (<= v1 mv) v1 mv) %s) (<= %s (ite (<= v1 mv) mv v1)))" % (vel3 % "t", vel3 % "t")))
    # acceptance: displacement comfortably beyond accel + decel distance, start/end speeds inside the limit
    acc_h = ["(> mv 0.0)", "(> ma 0.0)", "(<= v0 mv)", "(<= v1 mv)", "(>= (- p1 p0) (+ (* (/ (+ v0 mv) 2.0) t1) (* (/ (+ mv v1) 2.0) d3)))"]
    L.append(lemma("C07.R.accepted_when_displacement_exceeds_ramps_forward", V, set(), defs + acc_h, "(and (>= t1 0.0) (>= d3 0.0) (>= d2 0.0))"))
    acc_b = ["(< mv 0.0)", "(< ma 0.0)", "(>= v0 mv)", "(>= v1 mv)", "(<= (- p1 p0) (+ (* (/ (+ v0 mv) 2.0) t1) (* (/ (+ mv v1) 2.0) d3)))"]
    L.append(lemma("C07.R.accepted_when_displacement_exceeds_ramps_backward", V, set(), defs + acc_b, "(and (>= t1 0.0) (>= d3 0.0) (>= d2 0.0))"))
    for l in L:
        l["note"] = "over the reals, seconds, no ns truncation: a statement about the spec tree that the accessors were proved to compute bit-exactly"
    return L


def spec(ctx):
    hs = [
        Harness("c07_constructor_is_spec", "e2", split=True, timeout=400, allow_fail=CTOR_REJECTS, clause="constructor kinematics (sign, t1, dt2, dt3, ns truncation) == spec tree, all f32 inputs"),
    ] + [Harness("c07_phase_%d" % ph, "e2", split=True, timeout=150, skeletons=[(0,), (1,), (2,)], clause="phase %s: acceleration / velocity / position == closed forms at every i64 time in the phase, arbitrary parts (hook)" % PHASE_NAMES[ph]) for ph in range(5)] + [
        Harness("c07_endpoints_exact", "e2", split=True, timeout=300, skeletons=[(a, b) for a in (1, 2, 3) for b in (0, 1, 2)], clause="v(0) = v0, p(0) = p0 (finite parts); after completion the end command's value exactly"),
    ]
    nd = ["size of the f32 rounding error and of the ns truncation of t1..t3 (the numerical tolerance itself): (R) lemmas are over the reals",
          "phase boundaries at or beyond 2^60 ns"]
    # measured (thorough run, 2026-10-03): the two-run negation differential does not finish in 900 s per obligation on either solver
    # (each f32 operation is sign-symmetric, but the composition through the constructor is non-structural); the harness stays in
    # the generated crate for reference but is in neither tier.
    nd.append("'negating all positions and velocities negates every output exactly': NOT decided (cvc5 and z3 exceed 900 s); over the reals it follows from the (R) lemmas' formulas being odd in (p, v)")
    return {
        "crates": [{"rust": RUST.replace("@PHASES@", "".join(phase_fn(ph) for ph in range(5))), "harnesses": hs}],
        "lemmas": lemmas(),
        "functions": ["MotionProfile::{new, get_acceleration, get_velocity, get_position}", "Quantity::abs", "Time::try_from(Quantity)", "Quantity::from(Time)"],
        "bounds": {"inputs": "all f32 for which new() returns", "query time": "all i64", "phase boundaries": "|t_i| < 2^60 ns for accessor clauses"},
        "assumptions": ["cfg(kani) hook vk_parts reads the private phase boundaries", "spec trees written in the documented closed forms"],
        "not_decided": nd,
    }
