"""C14 State kinematics and State/Command/Quantity conversions are exact and consistent."""
from ..core import Harness
from ..dsl import V, T, Secs, lemma

PANIC_EQ = r"assertion failed: self_pos_der == PositionDerivative::from\(rhs\)|assertion failed: self\.eq_assume_true\(rhs\)"

RUST = r'''
#[cfg(kani)]
mod c14 {
    use super::*;

    // ---- State::update == spec tree (exact dataflow), all f32 bit patterns, |dt| < 2^60
    #[kani::proof]
    fn c14_update() {
        let (p, v, a) = (sym_f32(), sym_f32(), sym_f32());
        let dt = sym_time();
        let mut s = State::new_raw(p, v, a);
        s.update(Time(dt));
        let want_v = @NV@;
        let want_p = @NP@;
        vk_assert!(same(s.velocity, want_v), "C14.update.velocity");
        vk_assert!(same(s.position, want_p), "C14.update.position");
        vk_assert!(same(s.acceleration, a), "C14.update.acceleration_unchanged");
        vk_end!();
    }
    // ---- dt == 0 is the identity (as f32 values) for finite states
    #[kani::proof]
    fn c14_update_zero() {
        let (p, v, a) = (sym_fin(), sym_fin(), sym_fin());
        // |v| <= 1e38 keeps the intermediate v + v' finite (beyond it 0 * inf = NaN: outside the claim)
        kani::assume(v.abs() <= 1.0e38);
        let mut s = State::new_raw(p, v, a);
        s.update(Time(0));
        vk_assert!(veq(s.velocity, v) && veq(s.position, p) && same(s.acceleration, a), "C14.update.zero_dt_identity");
        vk_end!();
    }
    // ---- setters: correct unit sets/zeroes, wrong unit is rejected and leaves the state untouched
    #[kani::proof]
    fn c14_setters() {
        let (p, v, a, x) = (sym_f32(), sym_f32(), sym_f32(), sym_f32());
        let m: i8 = kani::any();
        let s_: i8 = kani::any();
        let u = Unit::new(m, s_);
        let q = Quantity::new(x, u);
        let which: u8 = kani::any();
        kani::assume(which < 3);
        let mut st = State::new_raw(p, v, a);
        let (res, ok_unit, want) = match which {
            0 => (st.set_constant_position(q), m == 1 && s_ == 0, State::new_raw(x, 0.0, 0.0)),
            1 => (st.set_constant_velocity(q), m == 1 && s_ == -1, State::new_raw(p, x, 0.0)),
            _ => (st.set_constant_acceleration(q), m == 1 && s_ == -2, State::new_raw(p, v, x)),
        };
        if ok_unit {
            vk_assert!(res == Ok(()), "C14.setter.accepts_correct_unit");
            vk_assert!(same_state(st, want), "C14.setter.sets_and_zeroes");
        } else {
            vk_assert!(res == Err(()), "C14.setter.rejects_wrong_unit");
            vk_assert!(same_state(st, State::new_raw(p, v, a)), "C14.setter.rejected_leaves_state");
        }
        vk_end!();
    }
    #[kani::proof]
    fn c14_setters_raw() {
        let (p, v, a, x) = (sym_f32(), sym_f32(), sym_f32(), sym_f32());
        let mut s0 = State::new_raw(p, v, a);
        s0.set_constant_position_raw(x);
        vk_assert!(same_state(s0, State::new_raw(x, 0.0, 0.0)), "C14.setter_raw.position");
        let mut s1 = State::new_raw(p, v, a);
        s1.set_constant_velocity_raw(x);
        vk_assert!(same_state(s1, State::new_raw(p, x, 0.0)), "C14.setter_raw.velocity");
        let mut s2 = State::new_raw(p, v, a);
        s2.set_constant_acceleration_raw(x);
        vk_assert!(same_state(s2, State::new_raw(p, v, x)), "C14.setter_raw.acceleration");
        // getters and State::new agree with the raw fields
        let s = State::new_raw(p, v, a);
        vk_assert!(same_q(s.get_position(), Quantity::new(p, Unit::new(1, 0))), "C14.state.get_position");
        vk_assert!(same_q(s.get_velocity(), Quantity::new(v, Unit::new(1, -1))), "C14.state.get_velocity");
        vk_assert!(same_q(s.get_acceleration(), Quantity::new(a, Unit::new(1, -2))), "C14.state.get_acceleration");
        let k = sym_kind();
        let want = match k {
            PositionDerivative::Position => Quantity::new(p, Unit::new(1, 0)),
            PositionDerivative::Velocity => Quantity::new(v, Unit::new(1, -1)),
            PositionDerivative::Acceleration => Quantity::new(a, Unit::new(1, -2)),
        };
        vk_assert!(same_q(s.get_value(k), want), "C14.state.get_value");
        let n = State::new(s.get_position(), s.get_velocity(), s.get_acceleration());
        vk_assert!(same_state(n, s), "C14.state.new_roundtrip");
        vk_end!();
    }
    // ---- State::new panics on a wrongly dimensioned argument
    #[kani::proof]
    fn c14_state_new_wrong_unit() {
        let (m, s_) = (kani::any::<i8>(), kani::any::<i8>());
        let which: u8 = kani::any();
        kani::assume(which < 3);
        let good = [Unit::new(1, 0), Unit::new(1, -1), Unit::new(1, -2)];
        kani::assume(Unit::new(m, s_) != good[which as usize]);
        let mut us = good;
        us[which as usize] = Unit::new(m, s_);
        kani::cover!(true, "vk_end");
        let _ = State::new(Quantity::new(sym_f32(), us[0]), Quantity::new(sym_f32(), us[1]), Quantity::new(sym_f32(), us[2]));
        vk_assert!(false, "C14.state.new_must_panic_on_wrong_unit");
    }
    // ---- Command::from(State): lowest non-zero derivative (f32 == 0.0 rule)
    #[kani::proof]
    fn c14_cmd_from_state() {
        let (p, v, a) = (sym_f32(), sym_f32(), sym_f32());
        let c = Command::from(State::new_raw(p, v, a));
        let want = if a == 0.0 { if v == 0.0 { Command::Position(p) } else { Command::Velocity(v) } } else { Command::Acceleration(a) };
        vk_assert!(same_cmd(c, want), "C14.command.from_state_lowest_nonzero");
        vk_end!();
    }
    // ---- Command accessors / conversions are mutually consistent and round-trip
    #[kani::proof]
    fn c14_cmd_accessors() {
        let k = sym_kind();
        let x = sym_f32();
        let c = Command::new(k, x);
        vk_assert!(PositionDerivative::from(c) == k, "C14.command.kind_roundtrip");
        vk_assert!(same(f32::from(c), x), "C14.command.raw_roundtrip");
        let q = Quantity::from(c);
        vk_assert!(same(q.value, x) && q.unit == Unit::from(k), "C14.command.quantity");
        let want_u = match k { PositionDerivative::Position => Unit::new(1, 0), PositionDerivative::Velocity => Unit::new(1, -1), PositionDerivative::Acceleration => Unit::new(1, -2) };
        vk_assert!(Unit::from(k) == want_u, "C14.kind.unit");
        vk_assert!(PositionDerivative::try_from(want_u) == Ok(k), "C14.unit.kind_roundtrip");
        let back = Command::try_from(q);
        vk_assert!(match back { Ok(b) => same_cmd(b, c), Err(_) => false }, "C14.command.quantity_roundtrip");
        match k {
            PositionDerivative::Position => {
                vk_assert!(match c.get_position() { Some(g) => same_q(g, Quantity::new(x, Unit::new(1, 0))), None => false }, "C14.command.get_position");
                vk_assert!(match c.get_velocity() { Some(g) => same_q(g, Quantity::new(0.0, Unit::new(1, -1))), None => false }, "C14.command.get_velocity");
                vk_assert!(same_q(c.get_acceleration(), Quantity::new(0.0, Unit::new(1, -2))), "C14.command.get_acceleration");
            }
            PositionDerivative::Velocity => {
                vk_assert!(c.get_position().is_none(), "C14.command.get_position");
                vk_assert!(match c.get_velocity() { Some(g) => same_q(g, Quantity::new(x, Unit::new(1, -1))), None => false }, "C14.command.get_velocity");
                vk_assert!(same_q(c.get_acceleration(), Quantity::new(0.0, Unit::new(1, -2))), "C14.command.get_acceleration");
            }
            PositionDerivative::Acceleration => {
                vk_assert!(c.get_position().is_none(), "C14.command.get_position");
                vk_assert!(c.get_velocity().is_none(), "C14.command.get_velocity");
                vk_assert!(same_q(c.get_acceleration(), Quantity::new(x, Unit::new(1, -2))), "C14.command.get_acceleration");
            }
        }
        vk_end!();
    }
    // Quantity -> Command fails for every unit that is not mm, mm/s, mm/s^2; unit -> kind likewise
    #[kani::proof]
    fn c14_cmd_try_from_other_units() {
        let (m, s_) = (kani::any::<i8>(), kani::any::<i8>());
        kani::assume(!(m == 1 && (s_ == 0 || s_ == -1 || s_ == -2)));
        vk_assert!(Command::try_from(Quantity::new(sym_f32(), Unit::new(m, s_))).is_err(), "C14.command.try_from_rejects");
        vk_assert!(PositionDerivative::try_from(Unit::new(m, s_)).is_err(), "C14.kind.try_from_rejects");
        vk_end!();
    }
    // ---- Command arithmetic within a kind is component-wise exact f32 and keeps the kind
    #[kani::proof]
    fn c14_cmd_arith() {
        let k = sym_kind();
        let (x, y, f) = (sym_f32(), sym_f32(), sym_f32());
        let (a, b) = (Command::new(k, x), Command::new(k, y));
        vk_assert!(same_cmd(a + b, Command::new(k, x + y)), "C14.command.add");
        vk_assert!(same_cmd(a - b, Command::new(k, x - y)), "C14.command.sub");
        vk_assert!(same_cmd(a * f, Command::new(k, x * f)), "C14.command.mul");
        vk_assert!(same_cmd(a / f, Command::new(k, x / f)), "C14.command.div");
        vk_assert!(same_cmd(-a, Command::new(k, -x)), "C14.command.neg");
        let mut c = a; c += b;
        vk_assert!(same_cmd(c, Command::new(k, x + y)), "C14.command.add_assign");
        let mut c = a; c -= b;
        vk_assert!(same_cmd(c, Command::new(k, x - y)), "C14.command.sub_assign");
        let mut c = a; c *= f;
        vk_assert!(same_cmd(c, Command::new(k, x * f)), "C14.command.mul_assign");
        let mut c = a; c /= f;
        vk_assert!(same_cmd(c, Command::new(k, x / f)), "C14.command.div_assign");
        vk_end!();
    }
    // ---- adding / subtracting commands of different kinds panics (all four forms)
    #[kani::proof]
    fn c14_cmd_mismatch_panics() {
        let (k1, k2) = (sym_kind(), sym_kind());
        kani::assume(k1 != k2);
        let (a, b) = (Command::new(k1, sym_f32()), Command::new(k2, sym_f32()));
        let form: u8 = kani::any();
        kani::assume(form < 4);
        kani::cover!(true, "vk_end");
        match form {
            0 => { let _ = a + b; }
            1 => { let _ = a - b; }
            2 => { let mut c = a; c += b; }
            _ => { let mut c = a; c -= b; }
        }
        vk_assert!(false, "C14.command.mismatched_kinds_must_panic");
    }
    // ---- State arithmetic is component-wise exact f32
    #[kani::proof]
    fn c14_state_arith() {
        let (p, v, a, q, w, b, f) = (sym_f32(), sym_f32(), sym_f32(), sym_f32(), sym_f32(), sym_f32(), sym_f32());
        let (s, t) = (State::new_raw(p, v, a), State::new_raw(q, w, b));
        vk_assert!(same_state(s + t, State::new_raw(p + q, v + w, a + b)), "C14.state.add");
        vk_assert!(same_state(s - t, State::new_raw(p - q, v - w, a - b)), "C14.state.sub");
        vk_assert!(same_state(s * f, State::new_raw(p * f, v * f, a * f)), "C14.state.mul");
        vk_assert!(same_state(s / f, State::new_raw(p / f, v / f, a / f)), "C14.state.div");
        vk_assert!(same_state(-s, State::new_raw(-p, -v, -a)), "C14.state.neg");
        let mut c = s; c += t;
        vk_assert!(same_state(c, State::new_raw(p + q, v + w, a + b)), "C14.state.add_assign");
        let mut c = s; c -= t;
        vk_assert!(same_state(c, State::new_raw(p - q, v - w, a - b)), "C14.state.sub_assign");
        let mut c = s; c *= f;
        vk_assert!(same_state(c, State::new_raw(p * f, v * f, a * f)), "C14.state.mul_assign");
        let mut c = s; c /= f;
        vk_assert!(same_state(c, State::new_raw(p / f, v / f, a / f)), "C14.state.div_assign");
        vk_end!();
    }
}
'''


def spec(ctx):
    p, v, a, dt = V("p"), V("v"), V("a"), T("dt")
    d = Secs(dt)
    nv = v + d * a
    np_ = p + d * (v + nv) / 2.0
    rust = RUST.replace("@NV@", nv.rust()).replace("@NP@", np_.rust())
    hs = [
        Harness("c14_update", "e2", tolerant=False, clause="State::update == spec tree, all f32, |dt|<2^60"),
        Harness("c14_update_zero", "e2", tolerant=False, clause="dt = 0 is the identity on finite states (as f32 values)"),
        Harness("c14_setters", "e1", clause="Quantity setters: all i8^2 units, accept/reject, zeroing, untouched on reject"),
        Harness("c14_setters_raw", "e1", clause="raw setters, getters, get_value, State::new round trip"),
        Harness("c14_state_new_wrong_unit", "e1", allow_fail=PANIC_EQ, clause="State::new panics on wrong unit (marker unreachable)"),
        Harness("c14_cmd_from_state", "e1", clause="Command::from(State) = lowest non-zero derivative"),
        Harness("c14_cmd_accessors", "e1", clause="Command kind/raw/quantity/accessor consistency and round trips"),
        Harness("c14_cmd_try_from_other_units", "e1", clause="Quantity->Command and Unit->kind fail for every other unit"),
        Harness("c14_cmd_arith", "e2", tolerant=False, clause="Command arithmetic within a kind, all operator and assign forms"),
        Harness("c14_cmd_mismatch_panics", "e1", allow_fail=PANIC_EQ, clause="Command +/-/+=/-= across kinds panics (marker unreachable)"),
        Harness("c14_state_arith", "e2", tolerant=False, clause="State arithmetic component-wise, all operator and assign forms"),
    ]
    # (R) the spec tree is the textbook constant-acceleration law over the reals
    lem = [
        lemma("C14.R.velocity", {"p", "v", "a"}, {"dt"}, [], "(= %s (+ v (* a (/ dt 1000000000.0))))" % nv.real()),
        lemma("C14.R.position", {"p", "v", "a"}, {"dt"}, [],
              "(= %s (+ p (* v (/ dt 1000000000.0)) (/ (* a (/ dt 1000000000.0) (/ dt 1000000000.0)) 2.0)))" % np_.real()),
    ]
    return {
        "crates": [{"rust": rust, "harnesses": hs}],
        "lemmas": lem,
        "functions": ["State::update", "State::{set_constant_*, set_constant_*_raw, get_*, get_value, new, new_raw}",
                      "Command::{new, from(State), get_*, try_from(Quantity)}", "f32/Quantity/PositionDerivative::from(Command)",
                      "Unit::from(PositionDerivative)", "PositionDerivative::try_from(Unit)",
                      "Command/State Add Sub Mul<f32> Div<f32> Neg and assign forms"],
        "bounds": {"f32": "all 2^32 bit patterns (finite only for the dt=0 identity)", "dt": "|dt| < 2^60 ns", "unit exponents": "all i8 x i8"},
        "assumptions": ["Kani models the dev profile (debug_assertions on, overflow checks on)", "dimension checking compiled in (dim_check_release)"],
        "not_decided": ["size of the f32 rounding error of State::update relative to the real-valued law (R-lemmas are over the reals)",
                        "|dt| >= 2^60 ns"],
    }
