"""C17 A Reference, its clones and its to_dyn conversion all denote one shared object."""
import itertools

from ..core import Harness

VARIANTS = {
    # name: (setup statements, expression creating the first Reference<u32>, shared-lock probe or None)
    "ptr": ("let mut target: u32 = init;", "unsafe { Reference::from_ptr(&mut target as *mut u32) }"),
    "rc_ref_cell": ("", "rc_ref_cell_reference(init)"),
    "ptr_rw_lock": ("let lock = std::sync::RwLock::new(init);", "unsafe { Reference::from_ptr_rw_lock(&lock as *const std::sync::RwLock<u32>) }"),
    "ptr_mutex": ("let lock = std::sync::Mutex::new(init);", "unsafe { Reference::from_ptr_mutex(&lock as *const std::sync::Mutex<u32>) }"),
    "arc_rw_lock": ("", "arc_rw_lock_reference(init)"),
    "arc_mutex": ("", "arc_mutex_reference(init)"),
}

SEQ = r'''
    // @V@: K operations from the job's skeleton over 3 slots holding clones: (0) clone slot a into slot b,
    // (1) drop slot a (never the last live one), (2) write a symbolic value through slot a. After every operation every
    // live clone must read the last value written; the original (slot 0) may be dropped.
    #[kani::proof]
    #[kani::unwind(6)]
    fn c17_seq_@V@() {
        let init: u32 = kani::any();
        @SETUP@
        let r0: Reference<u32> = @MAKE@;
        let mut slots: [Option<Reference<u32>>; 3] = [Some(r0), None, None];
        let mut model = init;
        let mut k = 0;
        while k < @K@ {
            let (op, a, b) = (sk(3 * k), sk(3 * k + 1) as usize, sk(3 * k + 2) as usize);
            let live = slots.iter().filter(|s| s.is_some()).count();
            if op == 0 {
                if let Some(r) = &slots[a] { let c = r.clone(); slots[b] = Some(c); }
            } else if op == 1 {
                if live > 1 && slots[a].is_some() { slots[a] = None; }
            } else {
                if let Some(r) = &slots[a] { let v: u32 = kani::any(); *r.borrow_mut() = v; model = v; }
            }
            let mut i = 0;
            while i < 3 {
                if let Some(r) = &slots[i] { vk_assert!(*r.borrow() == model, "C17.@V@.every_clone_sees_last_write"); }
                i += 1;
            }
            k += 1;
        }
        vk_end!();
    }
'''

LOCKS = r'''
    // reduced concurrency clause: a mutable borrow taken through one clone holds std's guard on the SHARED lock for its
    // whole life (try_lock / try_write on the Arc fail meanwhile, succeed afterwards), so concurrent read-modify-write
    // sequences are serialised by std's Mutex / RwLock (trusted); thread schedules themselves are not explored.
    #[kani::proof]
    fn c17_guard_held_arc_mutex() {
        let arc = std::sync::Arc::new(std::sync::Mutex::new(kani::any::<u32>()));
        let r1 = Reference::from_arc_mutex(arc.clone());
        let r2 = Reference::from_arc_mutex(arc.clone());
        {
            let mut g = r1.borrow_mut();
            vk_assert!(arc.try_lock().is_err(), "C17.arc_mutex.borrow_mut_holds_the_shared_lock");
            *g = 7;
        }
        vk_assert!(arc.try_lock().is_ok(), "C17.arc_mutex.lock_released_after_borrow");
        {
            let g = r2.borrow();
            vk_assert!(*g == 7, "C17.arc_mutex.other_reference_sees_write");
            vk_assert!(arc.try_lock().is_err(), "C17.arc_mutex.borrow_holds_the_shared_lock");
        }
        vk_end!();
    }
    #[kani::proof]
    fn c17_guard_held_arc_rw_lock() {
        let arc = std::sync::Arc::new(std::sync::RwLock::new(kani::any::<u32>()));
        let r1 = Reference::from_arc_rw_lock(arc.clone());
        let r2 = Reference::from_arc_rw_lock(arc.clone());
        {
            let mut g = r1.borrow_mut();
            vk_assert!(arc.try_write().is_err() && arc.try_read().is_err(), "C17.arc_rw_lock.borrow_mut_holds_the_write_lock");
            *g = 9;
        }
        vk_assert!(arc.try_write().is_ok(), "C17.arc_rw_lock.lock_released_after_borrow");
        {
            let g = r2.borrow();
            vk_assert!(*g == 9, "C17.arc_rw_lock.other_reference_sees_write");
            vk_assert!(arc.try_write().is_err() && arc.try_read().is_ok(), "C17.arc_rw_lock.borrow_holds_a_read_lock");
        }
        vk_end!();
    }
    // a mutable or shared borrow requested while the shared lock is held ELSEWHERE must WAIT, not panic: sequentially the
    // wait shows up as std's futex wait loop (allowed to exhaust the unwinding bound / reach the unmodelled futex
    // syscall), whereas reaching rrtk's own `expect` panic means the borrow gave up instead of waiting
    #[kani::proof]
    #[kani::unwind(3)]
    fn c17_contended_borrow_waits() {
        let which = sk(0);
        if which < 2 {
            let arc = std::sync::Arc::new(std::sync::Mutex::new(0u32));
            let r = Reference::from_arc_mutex(arc.clone());
            let held = arc.lock().unwrap();
            kani::cover!(true, "vk_end");
            if which == 0 { let _b = r.borrow_mut(); } else { let _b = r.borrow(); }
            drop(held);
        } else {
            let arc = std::sync::Arc::new(std::sync::RwLock::new(0u32));
            let r = Reference::from_arc_rw_lock(arc.clone());
            let held = arc.write().unwrap();
            kani::cover!(true, "vk_end");
            if which == 2 { let _b = r.borrow_mut(); } else { let _b = r.borrow(); }
            drop(held);
        }
    }
    #[kani::proof]
    fn c17_guard_held_ptr_locks() {
        let m = std::sync::Mutex::new(kani::any::<u32>());
        let r = unsafe { Reference::from_ptr_mutex(&m as *const std::sync::Mutex<u32>) };
        { let mut g = r.borrow_mut(); vk_assert!(m.try_lock().is_err(), "C17.ptr_mutex.borrow_mut_holds_the_lock"); *g = 3; }
        vk_assert!(match m.try_lock() { Ok(g) => *g == 3, Err(_) => false }, "C17.ptr_mutex.released_and_written");
        let l = std::sync::RwLock::new(kani::any::<u32>());
        let r = unsafe { Reference::from_ptr_rw_lock(&l as *const std::sync::RwLock<u32>) };
        { let mut g = r.borrow_mut(); vk_assert!(l.try_read().is_err(), "C17.ptr_rw_lock.borrow_mut_holds_the_write_lock"); *g = 4; }
        vk_assert!(match l.try_write() { Ok(g) => *g == 4, Err(_) => false }, "C17.ptr_rw_lock.released_and_written");
        vk_end!();
    }
'''

DYN = r'''
    pub trait Val { fn val(&self) -> u32; fn put(&mut self, v: u32); }
    impl Val for u32 { fn val(&self) -> u32 { *self } fn put(&mut self, v: u32) { *self = v; } }
    // to_dyn! from THIS crate (@FEAT@): every variant the macro lists converts and the result aliases the same object
    #[kani::proof]
    fn c17_to_dyn_ptr() {
        let (init, v, w): (u32, u32, u32) = (kani::any(), kani::any(), kani::any());
        let mut target: u32 = init;
        let r: Reference<u32> = unsafe { Reference::from_ptr(&mut target as *mut u32) };
        let d: Reference<dyn Val> = to_dyn!(Val, r.clone());
        vk_assert!(d.borrow().val() == init, "C17.to_dyn.ptr.reads_target");
        *r.borrow_mut() = v;
        vk_assert!(d.borrow().val() == v, "C17.to_dyn.ptr.sees_write_through_original");
        d.borrow_mut().put(w);
        vk_assert!(*r.borrow() == w, "C17.to_dyn.ptr.original_sees_write_through_dyn");
        vk_end!();
    }
    #[kani::proof]
    fn c17_to_dyn_rc_ref_cell() {
        let (init, v, w): (u32, u32, u32) = (kani::any(), kani::any(), kani::any());
        let r: Reference<u32> = rc_ref_cell_reference(init);
        let d: Reference<dyn Val> = to_dyn!(Val, r.clone());
        vk_assert!(d.borrow().val() == init, "C17.to_dyn.rc_ref_cell.reads_target");
        *r.borrow_mut() = v;
        vk_assert!(d.borrow().val() == v, "C17.to_dyn.rc_ref_cell.sees_write_through_original");
        d.borrow_mut().put(w);
        vk_assert!(*r.borrow() == w, "C17.to_dyn.rc_ref_cell.original_sees_write_through_dyn");
        drop(r);
        vk_assert!(d.borrow().val() == w, "C17.to_dyn.rc_ref_cell.keeps_target_alive");
        vk_end!();
    }
    #[kani::proof]
    fn c17_to_dyn_ptr_rw_lock() {
        let (init, v, w): (u32, u32, u32) = (kani::any(), kani::any(), kani::any());
        let lock = std::sync::RwLock::new(init);
        let r: Reference<u32> = unsafe { Reference::from_ptr_rw_lock(&lock as *const std::sync::RwLock<u32>) };
        let d: Reference<dyn Val> = to_dyn!(Val, r.clone());
        vk_assert!(d.borrow().val() == init, "C17.to_dyn.ptr_rw_lock.reads_target");
        *r.borrow_mut() = v;
        vk_assert!(d.borrow().val() == v, "C17.to_dyn.ptr_rw_lock.sees_write_through_original");
        d.borrow_mut().put(w);
        vk_assert!(*r.borrow() == w, "C17.to_dyn.ptr_rw_lock.original_sees_write_through_dyn");
        vk_end!();
    }
'''


def seq_skeletons(k):
    steps = [(op, a, b) for op in range(3) for a in range(3) for b in range(3) if (op == 0 and a != b) or (op != 0 and b == 0)]
    out = []
    for seq in itertools.product(steps, repeat=k):
        # prune sequences whose first operation touches an empty slot (nothing happens)
        live = {0}
        ok = True
        for op, a, b in seq:
            if a not in live:
                ok = False
                break
            if op == 0:
                live.add(b)
            elif op == 1 and len(live) > 1:
                live.discard(a)
        if ok:
            out.append(tuple(x for st in seq for x in st))
    return out


def spec(ctx):
    k = 2 if ctx.quick else 3
    sks = seq_skeletons(k)
    seqs = []
    hs = []
    for v, (setup, make) in VARIANTS.items():
        seqs.append(SEQ.replace("@V@", v).replace("@SETUP@", setup).replace("@MAKE@", make).replace("@K@", str(k)))
        hs.append(Harness("c17_seq_" + v, "e1", unwind=6, skeletons=sks,
                          clause="%s: every sequence of %d clone/drop/write operations over 3 slots; all live clones read the last write" % (v, k)))
    hs += [Harness("c17_guard_held_arc_mutex", "e1", clause="Arc<Mutex>: borrow/borrow_mut hold the shared lock for the life of the borrow"),
           Harness("c17_guard_held_arc_rw_lock", "e1", clause="Arc<RwLock>: borrow_mut holds the write lock, borrow a read lock"),
           Harness("c17_guard_held_ptr_locks", "e1", clause="PtrMutex / PtrRwLock: same"),
           Harness("c17_contended_borrow_waits", "e1", unwind=3, skeletons=[(0,), (1,), (2,), (3,)],
                   allow_fail=r"@std::sys::|@std::thread|@core::sync::atomic|futex|@std::sync::poison|foreign function|is not currently supported by Kani",
                   allow_unwind=r"futex|sys::sync|thread",
                   clause="borrow / borrow_mut on Arc<Mutex> / Arc<RwLock> while the lock is held elsewhere waits (std's futex loop) instead of panicking")]
    dyn_hs = lambda: [Harness("c17_to_dyn_ptr", "e1", clause="to_dyn! on a Ptr reference aliases the target"),
                      Harness("c17_to_dyn_rc_ref_cell", "e1", clause="to_dyn! on an Rc<RefCell> reference aliases and keeps the target alive"),
                      Harness("c17_to_dyn_ptr_rw_lock", "e1", clause="to_dyn! on a PtrRwLock reference aliases the target")]
    main = "#[cfg(kani)]\nmod c17 {\n    use super::*;\n" + "".join(seqs) + LOCKS + DYN.replace("@FEAT@", "a crate that declares NO features") + "}\n"
    feat = "#[cfg(kani)]\nmod c17 {\n    use super::*;\n" + DYN.replace("@FEAT@", "a crate that declares features named alloc and std, both enabled") + "}\n"
    return {
        "crates": [
            {"variant": "main", "rust": main, "harnesses": hs + dyn_hs()},
            {"variant": "feat", "rust": feat, "harnesses": dyn_hs(), "extra_deps": "\n[features]\ndefault = [\"alloc\", \"std\"]\nalloc = []\nstd = []\n"},
        ],
        "functions": ["Reference::{from_*, borrow, borrow_mut, clone, into_inner}", "rc_ref_cell_reference", "arc_mutex_reference", "arc_rw_lock_reference",
                      "Borrow/BorrowMut Deref/DerefMut", "to_dyn! (expanded in two downstream crates: one without features, one with alloc+std)"],
        "bounds": {"operation sequences": "all sequences of %d operations from {clone a->b, drop a, write a} over 3 slots (%d skeletons per variant), values symbolic u32" % (k, len(sks)),
                   "threads": "none: Kani is sequential"},
        "skeleton_space": {"sequences per variant": len(sks), "variants": list(VARIANTS)},
        "assumptions": ["std's Mutex / RwLock / Rc / Arc / RefCell are trusted", "lost-update freedom under threads is reduced to 'the guard of the shared lock is held for the whole borrow'"],
        "not_decided": ["thread schedules (Kani has no concurrency): the multi-threaded increment clause is only covered through the guard-held reduction",
                        "sequences longer than %d operations" % k],
    }
