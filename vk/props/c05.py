"""C05 Stateful streams: no stale errors, reset erases history, get is pure."""
import itertools

from .. import hist
from ..core import Harness

RUST = r'''
#[cfg(kani)]
mod c05 {
    use super::*;
    use rrtk::streams::{control::*, converters::*, flow::*, math::*};
''' + hist.RUST + r'''
    fn mix_powf(x: f32, y: f32) -> f32 { f32::from_bits(x.to_bits().rotate_left(7) ^ y.to_bits().wrapping_mul(0x9E37_79B1)) }
    fn gains3() -> PositionDerivativeDependentPIDKValues {
        PositionDerivativeDependentPIDKValues::new(PIDKValues::new(sym_f32(), sym_f32(), sym_f32()), PIDKValues::new(sym_f32(), sym_f32(), sym_f32()), PIDKValues::new(sym_f32(), sym_f32(), sym_f32()))
    }
    fn ev_qu(kind: u32, u: (i8, i8)) -> Ev<Quantity> { ev_q(kind, u.0, u.1) }

    /// Differential harness, real code on both sides (identical terms, so the solver work is structural):
    ///  A  the stream under test fed the whole history, get() read twice after every update;
    ///  (i)  get() is Err(e) only if the input returned that same e at this update;
    ///  B  a NEWLY CONSTRUCTED stream fed only the events from the last reset event onward: same outputs there;
    ///  C  (streams that ignore absent samples) a new stream fed the history with the absent events deleted:
    ///     same outputs at every remaining event;
    ///  D  a new stream fed the whole history WITHOUT any get() in between: same final output (get is pure).
    macro_rules! c05_stream {
        ($name:ident, $T:ty, $O:ty, $stub:meta, $pre:stmt, $ev:expr, $mk:expr, $same:expr, $reset_none:expr, $reset_err:expr, $ignores_none:expr) => {
            #[kani::proof]
            #[$stub]
            #[kani::unwind(9)]
            fn $name() {
                $pre;
                let k = sk(0) as usize;
                let mut evs: [Ev<$T>; KMAX] = [Ev::None; KMAX];
                let mut i = 0;
                while i < k { evs[i] = ($ev)(sk(1 + i)); i += 1; }
                let mut outs: [Output<$O, E>; KMAX] = [Ok(None); KMAX];
                let mut sa = Script::<$T, KMAX>::new(evs);
                let ra = ptr_ref(&mut sa);
                let mut a = ($mk)(ra.clone());
                let mut last_reset: Option<usize> = None;
                let mut i = 0;
                while i < k {
                    ra.borrow_mut().idx = i;
                    let _ = a.update();
                    let g1 = a.get();
                    let g2 = a.get();
                    vk_assert!(($same)(&g1, &g2), "C05.get_twice_is_identical");
                    if let Err(e) = g1 { vk_assert!(match evs[i] { Ev::Err(x) => Error::Other(x) == e, _ => false }, "C05.no_stale_error"); }
                    outs[i] = g1;
                    let kind = sk(1 + i);
                    if (kind == 1 && $reset_none) || (kind == 2 && $reset_err) { last_reset = Some(i); }
                    i += 1;
                }
                if let Some(j) = last_reset {
                    let mut evb: [Ev<$T>; KMAX] = [Ev::None; KMAX];
                    let mut i = j;
                    while i < k { evb[i - j] = evs[i]; i += 1; }
                    let mut sb = Script::<$T, KMAX>::new(evb);
                    let rb = ptr_ref(&mut sb);
                    let mut b = ($mk)(rb.clone());
                    let mut i = j;
                    while i < k {
                        rb.borrow_mut().idx = i - j;
                        let _ = b.update();
                        vk_assert!(($same)(&b.get(), &outs[i]), "C05.reset_equals_fresh_stream_fed_from_the_reset");
                        i += 1;
                    }
                }
                if $ignores_none {
                    let mut evc: [Ev<$T>; KMAX] = [Ev::None; KMAX];
                    let mut pos: [usize; KMAX] = [0; KMAX];
                    let mut n = 0;
                    let mut i = 0;
                    while i < k { if sk(1 + i) != 1 { evc[n] = evs[i]; pos[n] = i; n += 1; } i += 1; }
                    let mut sc = Script::<$T, KMAX>::new(evc);
                    let rc = ptr_ref(&mut sc);
                    let mut c = ($mk)(rc.clone());
                    let mut i = 0;
                    while i < n {
                        rc.borrow_mut().idx = i;
                        let _ = c.update();
                        vk_assert!(($same)(&c.get(), &outs[pos[i]]), "C05.deleting_absent_events_changes_nothing");
                        i += 1;
                    }
                }
                if k > 0 {
                    let mut sd = Script::<$T, KMAX>::new(evs);
                    let rd = ptr_ref(&mut sd);
                    let mut d = ($mk)(rd.clone());
                    let mut i = 0;
                    while i < k { rd.borrow_mut().idx = i; let _ = d.update(); i += 1; }
                    vk_assert!(($same)(&d.get(), &outs[k - 1]), "C05.interleaved_gets_do_not_affect_later_behaviour");
                }
                vk_end!();
            }
        };
    }
    //                name            T         O         stub                                   pre                            event                       constructor                                                    same            reset:None Err   ignores None
    c05_stream!(c05_pid,          f32,      f32,      cfg(kani), let (sp, kv) = (sym_f32(), PIDKValues::new(sym_f32(), sym_f32(), sym_f32())), ev_f32, |r| PIDControllerStream::new(r, sp, kv), out_same_f32, true, true, false);
    c05_stream!(c05_command_pid,  State,    f32,      cfg(kani), let (cmd, kv) = (Command::new(kind_of(sk(1 + KMAX)), sym_f32()), gains3()), ev_state, |r| CommandPID::new(r, cmd, kv), out_same_f32, true, true, false);
    c05_stream!(c05_ewma,         f32,      f32,      kani::stub(f32::powf, mix_powf), let s = sym_f32(), ev_f32, |r| -> EWMAStream<f32, _, E> { EWMAStream::new(r, s) }, out_same_f32, false, true, true);
    c05_stream!(c05_integral,     Quantity, Quantity, cfg(kani), let u = sym_unit60(), |kd| ev_qu(kd, u), |r| IntegralStream::new(r), out_same_q, true, true, false);
    c05_stream!(c05_derivative,   Quantity, Quantity, cfg(kani), let u = sym_unit60(), |kd| ev_qu(kd, u), |r| DerivativeStream::new(r), out_same_q, true, true, false);
    c05_stream!(c05_acc_to_state, Quantity, State,    cfg(kani), let u = (1i8, -2i8), |kd| ev_qu(kd, u), |r| AccelerationToState::new(r), out_same_state, false, true, true);
    c05_stream!(c05_vel_to_state, Quantity, State,    cfg(kani), let u = (1i8, -1i8), |kd| ev_qu(kd, u), |r| VelocityToState::new(r), out_same_state, false, true, true);
    c05_stream!(c05_pos_to_state, Quantity, State,    cfg(kani), let u = (1i8, 0i8), |kd| ev_qu(kd, u), |r| PositionToState::new(r), out_same_state, false, true, true);
    c05_stream!(c05_float_to_quantity, f32, Quantity, cfg(kani), let u = sym_unit60(), ev_f32, |r| FloatToQuantity::new(Unit::new(u.0, u.1), r), out_same_q, true, true, false);
    c05_stream!(c05_quantity_to_float, Quantity, f32, cfg(kani), let u = sym_unit60(), |kd| ev_qu(kd, u), |r| QuantityToFloat::new(r), out_same_f32, true, true, false);
    // moving average: histories with at most one present sample (two present updates exceed what CBMC's symex of the
    // heap-backed VecDeque can do, see C12)
    c05_stream!(c05_moving_average, f32,    f32,      cfg(kani), let w = { let w: i64 = kani::any(); kani::assume(w > 0 && w < (1i64 << 60)); w }, ev_f32, |r| -> MovingAverageStream<f32, _, E> { MovingAverageStream::new(r, Time(w)) }, out_same_f32, false, true, true);

    // pass-through converters: exact contract
    #[kani::proof]
    fn c05_converters_contract() {
        let u = sym_unit60();
        let ef = ev_f32(sk(0));
        let eq = match ef { Ev::Some(t, x) => Ev::Some(t, Quantity::new(x, Unit::new(u.0, u.1))), Ev::None => Ev::None, Ev::Err(e) => Ev::Err(e) };
        let (mut gf, mut gq) = (One(ef), One(eq));
        let mut f2q = FloatToQuantity::new(Unit::new(u.0, u.1), ptr_ref(&mut gf));
        let mut q2f = QuantityToFloat::new(ptr_ref(&mut gq));
        vk_assert!(f2q.get() == Ok(None) && q2f.get() == Ok(None), "C05.converters.absent_before_update");
        let _ = f2q.update();
        let _ = q2f.update();
        let want_q: Output<Quantity, E> = match eq { Ev::Some(t, q) => Ok(Some(Datum::new(Time(t), q))), Ev::None => Ok(None), Ev::Err(e) => Err(Error::Other(e)) };
        let want_f: Output<f32, E> = match ef { Ev::Some(t, x) => Ok(Some(Datum::new(Time(t), x))), Ev::None => Ok(None), Ev::Err(e) => Err(Error::Other(e)) };
        vk_assert!(out_same_q(&f2q.get(), &want_q), "C05.float_to_quantity.replays_last_input_with_unit");
        vk_assert!(out_same_f32(&q2f.get(), &want_f), "C05.quantity_to_float.replays_last_input_value");
        vk_end!();
    }
    // freeze: exactly what the input returned at the last update at which the condition was false; absent whenever the
    // condition is absent; a condition error is reported. Skeleton: [k, (cond kind 0 false / 1 true / 2 absent / 3 error, input kind)*]
    #[kani::proof]
    #[kani::unwind(9)]
    fn c05_freeze() {
        let k = sk(0) as usize;
        let mut evc: [Ev<bool>; KMAX] = [Ev::None; KMAX];
        let mut evi: [Ev<Tr>; KMAX] = [Ev::None; KMAX];
        let mut i = 0;
        while i < k {
            evc[i] = match sk(1 + 2 * i) { 0 => Ev::Some(kani::any(), false), 1 => Ev::Some(kani::any(), true), 2 => Ev::None, _ => Ev::Err(kani::any()) };
            evi[i] = match sk(2 + 2 * i) { 0 => Ev::Some(kani::any(), Tr::leaf(1 + i as u64)), 1 => Ev::None, _ => Ev::Err(kani::any()) };
            i += 1;
        }
        let mut sc = Script::<bool, KMAX>::new(evc);
        let mut si = Script::<Tr, KMAX>::new(evi);
        let (rc, ri) = (ptr_ref(&mut sc), ptr_ref(&mut si));
        let mut fz = FreezeStream::new(rc.clone(), ri.clone());
        let mut want: Output<Tr, E> = Ok(None);
        vk_assert!(fz.get() == want, "C05.freeze.absent_before_update");
        let mut i = 0;
        while i < k {
            rc.borrow_mut().idx = i;
            ri.borrow_mut().idx = i;
            let res = fz.update();
            let input_now: Output<Tr, E> = match evi[i] { Ev::Some(t, v) => Ok(Some(Datum::new(Time(t), v))), Ev::None => Ok(None), Ev::Err(e) => Err(Error::Other(e)) };
            let want_res: NothingOrError<E> = match evc[i] {
                Ev::Err(e) => { want = Err(Error::Other(e)); Err(Error::Other(e)) }
                Ev::None => { want = Ok(None); Ok(()) }
                Ev::Some(_, true) => Ok(()),
                Ev::Some(_, false) => { want = input_now; match input_now { Err(e) => Err(e), Ok(_) => Ok(()) } }
            };
            vk_assert!(res == want_res, "C05.freeze.update_result");
            let g = fz.get();
            vk_assert!(g == want, "C05.freeze.replays_last_unfrozen_input");
            vk_assert!(fz.get() == g, "C05.freeze.get_twice_is_identical");
            i += 1;
        }
        vk_end!();
    }
}
'''

# (harness, payload clause, which histories)
STREAMS = ["c05_pid", "c05_command_pid", "c05_ewma", "c05_integral", "c05_derivative", "c05_acc_to_state", "c05_vel_to_state",
           "c05_pos_to_state", "c05_float_to_quantity", "c05_quantity_to_float"]


def spec(ctx):
    K = 3 if ctx.quick else 4
    pad = lambda h: h
    hsk = [pad(h) for h in hist.histories(K)]
    hs = [Harness(n, "e2", unwind=9, skeletons=hsk, stubs=(n == "c05_ewma"),
                  clause="%s: every history of %d events; no stale error, reset == fresh stream, absent-deletion (where ignored), get purity" % (n[4:], K)) for n in STREAMS]
    for h in hs:
        if h.name == "c05_command_pid":      # concrete command kind (position / velocity / acceleration) per job
            h.skeletons = [s + (9,) * (6 - (len(s) - 1)) + (ck,) for s in hsk for ck in range(3)]
    ma = [pad(h) for h in hist.histories(K) if sum(1 for x in h[1:] if x == 0) <= 1]
    hs.append(Harness("c05_moving_average", "e2", unwind=9, skeletons=ma, timeout=300,
                      clause="moving average: histories of %d events with at most one present sample" % K))
    hs.append(Harness("c05_converters_contract", "e2", skeletons=[(0,), (1,), (2,)], clause="FloatToQuantity / QuantityToFloat replay the last input exactly"))
    fk = 2 if ctx.quick else 3
    fsk = [(fk,) + tuple(x for pair in seq for x in pair) for seq in itertools.product(list(itertools.product(range(4), range(3))), repeat=fk)]
    hs.append(Harness("c05_freeze", "e1", unwind=9, skeletons=fsk, clause="FreezeStream: every history of %d (condition, input) event pairs" % fk))
    return {
        "crates": [{"rust": RUST, "harnesses": hs, "stubbing": True}],
        "functions": ["PIDControllerStream", "CommandPID", "EWMAStream<f32>", "MovingAverageStream<f32>", "IntegralStream", "DerivativeStream", "AccelerationToState",
                      "VelocityToState", "PositionToState", "FloatToQuantity", "QuantityToFloat", "FreezeStream (update/get of each)"],
        "bounds": {"history length": K, "freeze history length": fk, "event kinds": "all sequences of present/absent/error (error code symbolic, so two distinct error values are covered)",
                   "moving average": "histories with at most one present sample", "values": "all f32; |t| < 2^60"},
        "skeleton_space": {"histories per stream": len(hsk), "moving-average histories": len(ma), "freeze histories": len(fsk)},
        "assumptions": ["reset events per stream: PID absent+error; CommandPID absent+error; EWMA / moving average / to-state converters error only (absent ignored); "
                        "integral / derivative absent+error; float/quantity converters memoryless",
                        "powf replaced by an injective mixer for EWMA (both sides of the differential use the same stub)"],
        "not_decided": ["histories longer than %d events" % K, "moving-average histories with two or more present samples (heap-backed VecDeque in symex, see C12)",
                        "EWMAStream<Quantity> / MovingAverageStream<Quantity> in the differential (their numbers are tied to the f32 variants in C12)"],
    }
