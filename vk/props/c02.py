"""C02 Stateless streams honour their documented error / absent / present contract."""
from ..core import Harness

RUST = r'''
#[cfg(kani)]
mod c02 {
    use super::*;
    use rrtk::streams::{converters::*, flow::*, logic::*, math::*, *};

    fn sym_ev(id: u64) -> Ev<Tr> {
        let k: u8 = kani::any();
        kani::assume(k < 3);
        match k { 0 => Ev::Some(kani::any(), Tr::leaf(id)), 1 => Ev::None, _ => Ev::Err(kani::any()) }
    }
    /// input whose category is fixed by the job's concrete skeleton; timestamp and error code stay symbolic
    fn ev_k(k: u32, id: u64) -> Ev<Tr> {
        match k { 0 => Ev::Some(kani::any(), Tr::leaf(id)), 1 => Ev::None, _ => Ev::Err(kani::any()) }
    }
    fn sym_evb() -> Ev<bool> {
        let k: u8 = kani::any();
        kani::assume(k < 3);
        match k { 0 => Ev::Some(kani::any(), kani::any()), 1 => Ev::None, _ => Ev::Err(kani::any()) }
    }
    fn exp_of<T: Copy>(e: Ev<T>) -> Output<T, E> {
        match e { Ev::Some(t, v) => Ok(Some(Datum::new(Time(t), v))), Ev::None => Ok(None), Ev::Err(x) => Err(Error::Other(x)) }
    }
    fn dr<T: Copy + 'static>(g: &mut One<T>) -> Reference<dyn Getter<T, E>> { dyn_ref::<T, One<T>>(g) }

    // ---------------- n-ary sum / product / newest-of (one generated harness per arity; explicit inputs, no pointer arithmetic)
@NARY@
    // ---------------- binary arithmetic: Sum2 / Product2 / Difference / Quotient
    fn bin_ref(a: Ev<Tr>, b: Ev<Tr>, op: u64, pass_second_when_first_absent: bool) -> Output<Tr, E> {
        // first error in input order (for Sum2/Product2 the second input is not read after a first error)
        if let Ev::Err(e) = a { return Err(Error::Other(e)); }
        if let Ev::Err(e) = b { return Err(Error::Other(e)); }
        match (a, b) {
            (Ev::None, _) => if pass_second_when_first_absent { exp_of(b) } else { Ok(None) },
            (Ev::Some(t, v), Ev::None) => Ok(Some(Datum::new(Time(t), v))),
            (Ev::Some(t1, v1), Ev::Some(t2, v2)) => Ok(Some(Datum::new(Time(max_t(t1, t2)), Tr::mix(v1, v2, op)))),
            _ => Ok(None),
        }
    }
    #[kani::proof]
    #[kani::unwind(4)]
    fn c02_binary() {
        let (a, b) = (sym_ev(1), sym_ev(2));
        let (mut ga, mut gb) = (One(a), One(b));
        let (ra, rb) = (ptr_ref(&mut ga), ptr_ref(&mut gb));
        let s2 = Sum2::new(ra.clone(), rb.clone());
        let g = s2.get();
        vk_assert!(g == bin_ref(a, b, 1, true), "C02.sum2.contract");
        vk_assert!(s2.get() == g, "C02.sum2.get_is_pure");
        let sn = SumStream::new([dr(&mut ga), dr(&mut gb)]);
        vk_assert!(sn.get() == g, "C02.sum2.agrees_with_n_ary");
        let p2 = Product2::new(ra.clone(), rb.clone());
        let g = p2.get();
        vk_assert!(g == bin_ref(a, b, 3, true), "C02.product2.contract");
        vk_assert!(p2.get() == g, "C02.product2.get_is_pure");
        let pn = ProductStream::new([dr(&mut ga), dr(&mut gb)]);
        vk_assert!(pn.get() == g, "C02.product2.agrees_with_n_ary");
        let d = DifferenceStream::new(ra.clone(), rb.clone());
        let g = d.get();
        vk_assert!(g == bin_ref(a, b, 2, false), "C02.difference.contract");
        vk_assert!(d.get() == g, "C02.difference.get_is_pure");
        let q = QuotientStream::new(ra.clone(), rb.clone());
        let g = q.get();
        vk_assert!(g == bin_ref(a, b, 4, false), "C02.quotient.contract");
        vk_assert!(q.get() == g, "C02.quotient.get_is_pure");
        vk_end!();
    }
    // ---------------- exponent (f32, powf stubbed by an injective bit mixer: decides which arguments reach powf)
    fn mix_powf(x: f32, y: f32) -> f32 { f32::from_bits(x.to_bits().rotate_left(7) ^ y.to_bits().wrapping_mul(0x9E37_79B1)) }
    #[kani::proof]
    #[kani::stub(f32::powf, mix_powf)]
    fn c02_exponent() {
        let mk = |k: u32| -> Ev<f32> { match k { 0 => Ev::Some(kani::any(), kani::any()), 1 => Ev::None, _ => Ev::Err(kani::any()) } };
        let (a, b) = (mk(sk(0)), mk(sk(1)));
        let (mut ga, mut gb) = (One(a), One(b));
        let x = ExponentStream::new(ptr_ref(&mut ga), ptr_ref(&mut gb));
        let g = x.get();
        let want: Output<f32, E> = match (a, b) {
            (Ev::Err(e), _) => Err(Error::Other(e)),
            (_, Ev::Err(e)) => Err(Error::Other(e)),
            (Ev::None, _) => Ok(None),
            (Ev::Some(t, v), Ev::None) => Ok(Some(Datum::new(Time(t), v))),
            (Ev::Some(t1, v1), Ev::Some(t2, v2)) => Ok(Some(Datum::new(Time(max_t(t1, t2)), mix_powf(v1, v2)))),
        };
        vk_assert!(out_same_f32(&g, &want), "C02.exponent.contract");
        vk_assert!(out_same_f32(&x.get(), &g), "C02.exponent.get_is_pure");
        vk_end!();
    }
    // ---------------- flow: if / if-else / expirer ; converters
    #[kani::proof]
    fn c02_flow() {
        let c = sym_evb();
        let (a, b) = (sym_ev(1), sym_ev(2));
        let (mut gc, mut ga, mut gb) = (One(c), One(a), One(b));
        let i = IfStream::new(ptr_ref(&mut gc), ptr_ref(&mut ga));
        let g = i.get();
        let want = match c { Ev::Err(e) => Err(Error::Other(e)), Ev::Some(_, true) => exp_of(a), _ => Ok(None) };
        vk_assert!(g == want, "C02.if.contract");
        vk_assert!(i.get() == g, "C02.if.get_is_pure");
        let ie = IfElseStream::new(ptr_ref(&mut gc), ptr_ref(&mut ga), ptr_ref(&mut gb));
        let g = ie.get();
        let want = match c { Ev::Err(e) => Err(Error::Other(e)), Ev::None => Ok(None), Ev::Some(_, true) => exp_of(a), Ev::Some(_, false) => exp_of(b) };
        vk_assert!(g == want, "C02.if_else.contract");
        vk_assert!(ie.get() == g, "C02.if_else.get_is_pure");
        vk_end!();
    }
    #[kani::proof]
    fn c02_expirer_converters() {
        let a = match sym_ev(1) { Ev::Some(_, v) => Ev::Some(sym_time(), v), o => o };
        let now: Result<i64, E> = if kani::any() { Ok(sym_time()) } else { Err(kani::any()) };
        let limit: i64 = kani::any();
        let (mut ga, mut clk) = (One(a), Clock(now));
        let x = Expirer::new(ptr_ref(&mut ga), ptr_ref(&mut clk), Time(limit));
        let g = x.get();
        let want: Output<Tr, E> = match a {
            Ev::Err(e) => Err(Error::Other(e)),
            Ev::None => Ok(None),
            Ev::Some(t, v) => match now { Err(e) => Err(Error::Other(e)), Ok(n) => if n - t > limit { Ok(None) } else { Ok(Some(Datum::new(Time(t), v))) } },
        };
        vk_assert!(g == want, "C02.expirer.contract");
        vk_assert!(x.get() == g, "C02.expirer.get_is_pure");
        let ne = NoneToError::new(ptr_ref(&mut ga));
        let g = ne.get();
        let want: Output<Tr, E> = match a { Ev::None => Err(Error::FromNone), o => exp_of(o) };
        vk_assert!(g == want, "C02.none_to_error.contract");
        vk_assert!(ne.get() == g, "C02.none_to_error.get_is_pure");
        let nv = NoneToValue::new(ptr_ref(&mut ga), ptr_ref(&mut clk), Tr::leaf(9));
        let g = nv.get();
        let want: Output<Tr, E> = match a {
            Ev::None => match now { Ok(n) => Ok(Some(Datum::new(Time(n), Tr::leaf(9)))), Err(e) => Err(Error::Other(e)) },
            o => exp_of(o),
        };
        vk_assert!(g == want, "C02.none_to_value.contract");
        vk_assert!(nv.get() == g, "C02.none_to_value.get_is_pure");
        let ng: Output<Tr, E> = NoneGetter::new().get();
        vk_assert!(ng == Ok(None), "C02.none_getter");
        let cg = ConstantGetter::new(ptr_ref(&mut clk), Tr::leaf(7));
        let want: Output<Tr, E> = match now { Ok(n) => Ok(Some(Datum::new(Time(n), Tr::leaf(7)))), Err(e) => Err(Error::Other(e)) };
        vk_assert!(cg.get() == want, "C02.constant_getter");
        vk_end!();
    }
    // ---------------- logic: strong Kleene tables, newest present timestamp, De Morgan
    fn k3(e: Ev<bool>) -> Option<bool> { match e { Ev::Some(_, v) => Some(v), _ => None } }
    fn tmax(a: Ev<bool>, b: Ev<bool>) -> Option<i64> {
        match (a, b) { (Ev::Some(t1, _), Ev::Some(t2, _)) => Some(max_t(t1, t2)), (Ev::Some(t, _), _) => Some(t), (_, Ev::Some(t, _)) => Some(t), _ => None }
    }
    fn logic_ref(a: Ev<bool>, b: Ev<bool>, is_and: bool) -> Output<bool, E> {
        if let Ev::Err(e) = a { return Err(Error::Other(e)); }
        if let Ev::Err(e) = b { return Err(Error::Other(e)); }
        let v = match (k3(a), k3(b)) {
            (Some(x), Some(y)) => Some(if is_and { x && y } else { x || y }),
            (Some(x), None) | (None, Some(x)) => if is_and { if !x { Some(false) } else { None } } else { if x { Some(true) } else { None } },
            (None, None) => None,
        };
        match (v, tmax(a, b)) { (Some(v), Some(t)) => Ok(Some(Datum::new(Time(t), v))), _ => Ok(None) }
    }
    #[kani::proof]
    fn c02_logic() {
        let (a, b) = (sym_evb(), sym_evb());
        let (mut ga, mut gb) = (One(a), One(b));
        let (ra, rb) = (ptr_ref(&mut ga), ptr_ref(&mut gb));
        let mut and = AndStream::new(ra.clone(), rb.clone());
        let g_and = and.get();
        vk_assert!(g_and == logic_ref(a, b, true), "C02.and.kleene_table");
        vk_assert!(and.get() == g_and, "C02.and.get_is_pure");
        let mut or = OrStream::new(ra.clone(), rb.clone());
        let g_or = or.get();
        vk_assert!(g_or == logic_ref(a, b, false), "C02.or.kleene_table");
        vk_assert!(or.get() == g_or, "C02.or.get_is_pure");
        let mut na = NotStream::new(ra.clone());
        let mut nb = NotStream::new(rb.clone());
        let want_na: Output<bool, E> = match a { Ev::Some(t, v) => Ok(Some(Datum::new(Time(t), !v))), Ev::None => Ok(None), Ev::Err(e) => Err(Error::Other(e)) };
        vk_assert!(na.get() == want_na, "C02.not.contract");
        // De Morgan: not(and(a,b)) == or(not a, not b) and dual, including timestamps and error selection
        let n_and = NotStream::new(ptr_ref(&mut and));
        let or_n = OrStream::new(ptr_ref(&mut na), ptr_ref(&mut nb));
        vk_assert!(n_and.get() == or_n.get(), "C02.de_morgan.not_and");
        let n_or = NotStream::new(ptr_ref(&mut or));
        let and_n = AndStream::new(ptr_ref(&mut na), ptr_ref(&mut nb));
        vk_assert!(n_or.get() == and_n.get(), "C02.de_morgan.not_or");
        vk_end!();
    }
}
'''


def nary_fn(n, kind):
    gs = "\n".join("        let e%d = sym_ev(%d); let mut g%d = One(e%d);" % (i, i + 1, i, i) for i in range(n))
    evs = ", ".join("e%d" % i for i in range(n))
    refs = ", ".join("dr(&mut g%d)" % i for i in range(n))
    body = {"sum": NARY_SUM, "product": NARY_SUM.replace("SumStream", "ProductStream").replace("Tr::mix(vv, v, 1)", "Tr::mix(vv, v, 3)").replace("C02.sum_n", "C02.product_n"),
            "latest": NARY_LATEST}[kind]
    pure = 'vk_assert!(s.get() == g, "C02.%s_n.get_is_pure");' % kind if n <= 2 else ""
    return (NARY_HEAD + body).replace("@PURE@", pure).replace("@K@", kind).replace("@N@", str(n)).replace("@GS@", gs).replace("@EVS@", evs).replace("@REFS@", refs).replace("@UNW@", str(n + 2))


NARY_HEAD = r'''    #[kani::proof]
    #[kani::unwind(@UNW@)]
    fn c02_@K@_@N@() {
        const N: usize = @N@;
@GS@
        let evs: [Ev<Tr>; N] = [@EVS@];
'''
NARY_SUM = r'''        // reference: first error in input order; otherwise fold the present values in input order
        let mut first_err: Option<E> = None;
        let mut i = 0;
        while i < N { if first_err.is_none() { if let Ev::Err(e) = evs[i] { first_err = Some(e); } } i += 1; }
        let mut acc: Option<(i64, Tr)> = None;
        let mut i = 0;
        while i < N {
            if let Ev::Some(t, v) = evs[i] {
                acc = Some(match acc { None => (t, v), Some((tt, vv)) => (max_t(tt, t), Tr::mix(vv, v, 1)) });
            }
            i += 1;
        }
        let want: Output<Tr, E> = match first_err { Some(e) => Err(Error::Other(e)), None => Ok(acc.map(|(t, v)| Datum::new(Time(t), v))) };
        let s = SumStream::new([@REFS@]);
        let g = s.get();
        vk_assert!(g == want, "C02.sum_n.contract");
        @PURE@
        vk_end!();
        core::mem::forget(s);
    }
'''
NARY_LATEST = r'''        // newest-of skips errors and absents and never errors: the result is one of the present inputs and no present
        // input is strictly newer (which one wins a tie is not part of the contract)
        let mut tmax: Option<i64> = None;
        let mut i = 0;
        while i < N {
            if let Ev::Some(t, _) = evs[i] { tmax = Some(match tmax { None => t, Some(tt) => max_t(tt, t) }); }
            i += 1;
        }
        let s = Latest::new([@REFS@]);
        let g = s.get();
        match tmax {
            None => { vk_assert!(g == Ok(None), "C02.latest.absent_iff_no_input_present"); }
            Some(tm) => {
                let mut is_candidate = false;
                let mut i = 0;
                while i < N {
                    if let Ev::Some(t, v) = evs[i] { if g == Ok(Some(Datum::new(Time(t), v))) { is_candidate = true; } }
                    i += 1;
                }
                vk_assert!(is_candidate, "C02.latest.result_is_a_present_input");
                vk_assert!(match g { Ok(Some(d)) => d.time.0 == tm, _ => false }, "C02.latest.none_strictly_newer");
            }
        }
        @PURE@
        vk_end!();
        core::mem::forget(s);
    }
'''


def spec(ctx):
    ar = [1, 2, 3, 4] if ctx.quick else [1, 2, 3, 4, 5]
    import itertools
    kinds = ["sum", "product", "latest"]
    hs = [Harness("c02_%s_%d" % (k, n), "e1", unwind=n + 2, timeout=300, clause="%s stream with %d inputs: all 3^%d category patterns x all timestamps and error codes" % (k, n, n)) for n in ar for k in kinds]
    hs += [
        Harness("c02_binary", "e1", unwind=4, clause="Sum2/Product2 (agree with n-ary), Difference, Quotient"),
        Harness("c02_exponent", "e2", stubs=True, skeletons=list(itertools.product([0, 1, 2], repeat=2)), clause="ExponentStream (powf stubbed by an injective mixer)"),
        Harness("c02_flow", "e1", clause="IfStream, IfElseStream"),
        Harness("c02_expirer_converters", "e1", clause="Expirer, NoneToError, NoneToValue, NoneGetter, ConstantGetter"),
        Harness("c02_logic", "e1", clause="And/Or/Not strong-Kleene tables, timestamps, De Morgan duality"),
    ]
    return {
        "crates": [{"rust": RUST.replace("@NARY@", "\n".join(nary_fn(n, k) for n in ar for k in kinds)), "harnesses": hs, "stubbing": True}],
        "functions": ["SumStream", "Sum2", "DifferenceStream", "ProductStream", "Product2", "QuotientStream", "ExponentStream", "Latest", "Expirer",
                      "IfStream", "IfElseStream", "NoneToError", "NoneToValue", "AndStream", "OrStream", "NotStream", "NoneGetter", "ConstantGetter (Getter::get of each)"],
        "bounds": {"arity of n-ary streams": ar, "input categories": "every assignment of Err(e)/None/Some to every input, e any u8 (symbolic)",
                   "timestamps": "all i64 (expirer: |t| < 2^60 so that now - t cannot overflow)", "payload": "trace payload Tr (any T by parametricity), bool, f32 for exponent"},
        "assumptions": ["powf replaced by an injective bit mixer for ExponentStream (decides argument routing, not powf's value)",
                        "payload parametricity: generic streams cannot inspect T"],
        "not_decided": ["arities above %d" % ar[-1], "numeric accuracy of powf"],
    }
