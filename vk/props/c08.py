"""C08 Device update projects measured states onto the mechanical constraint."""
import itertools

from .. import dev
from ..core import Harness
from ..dsl import lemma

RUST = r'''
#[cfg(kani)]
mod c08 {
    use super::*;
''' + dev.RUST + r'''
    fn newest(a: Time, b: Time) -> Time { if a >= b { a } else { b } }

    // ---- inverter: side2 = -side1; both present: ((s1 - s2)/2, -(s1 - s2)/2); one present: the other gets its negation
    #[kani::proof]
    #[kani::unwind(4)]
    fn c08_invert() {
        let mut dev = Invert::<E>::new();
        let (t1, t2) = (dev.get_terminal_1(), dev.get_terminal_2());
        let (d1, d2) = (put_state(t1, sk(0) == 1), put_state(t2, sk(1) == 1));
        vk_assert!(dev.update() == Ok(()), "C08.invert.update_ok");
        let (w1, w2) = match (d1, d2) {
            (None, None) => (None, None),
            (Some(a), None) => (Some(a), Some(Datum::new(a.time, smap(a.value, |x| -x)))),
            (None, Some(b)) => (Some(Datum::new(b.time, smap(b.value, |x| -x))), Some(b)),
            (Some(a), Some(b)) => {
                let n = smap2(a.value, b.value, |x, y| (x - y) / 2.0);
                let t = newest(a.time, b.time);
                (Some(Datum::new(t, n)), Some(Datum::new(t, smap(n, |x| -x))))
            }
        };
        vk_assert!(sds(held_state(t1), w1), "C08.invert.side1_projection_and_newest_time");
        vk_assert!(sds(held_state(t2), w2), "C08.invert.side2_is_exact_negative");
        vk_end!();
    }
    // ---- gear train: side2 = r*side1; both: x' = (x + r*y)/(r^2+1), y' = (x + r*y)*r/(r^2+1); one side: * r or / r
    #[kani::proof]
    #[kani::unwind(4)]
    fn c08_gear_train() {
        let r = sym_f32();
        let mut dev = GearTrain::<E>::with_ratio_raw(r);
        let (t1, t2) = (dev.get_terminal_1(), dev.get_terminal_2());
        let (d1, d2) = (put_state(t1, sk(0) == 1), put_state(t2, sk(1) == 1));
        vk_assert!(dev.update() == Ok(()), "C08.gear_train.update_ok");
        let (w1, w2) = match (d1, d2) {
            (None, None) => (None, None),
            (Some(a), None) => (Some(a), Some(Datum::new(a.time, smap(a.value, |x| x * r)))),
            (None, Some(b)) => (Some(Datum::new(b.time, smap(b.value, |x| x / r))), Some(b)),
            (Some(a), Some(b)) => {
                let den = r * r + 1.0;
                let t = newest(a.time, b.time);
                (Some(Datum::new(t, smap2(a.value, b.value, |x, y| (x + y * r) / den))),
                 Some(Datum::new(t, smap2(a.value, b.value, |x, y| ((x + y * r) * r) / den))))
            }
        };
        vk_assert!(sds(held_state(t1), w1), "C08.gear_train.side1_least_squares_or_divided_by_ratio");
        vk_assert!(sds(held_state(t2), w2), "C08.gear_train.side2_least_squares_or_multiplied_by_ratio");
        vk_end!();
    }
    // ratio from tooth counts: first/last with sign (-1)^(gears-1); observed through single-sided propagation
    fn teeth_n<const N: usize>() {
        let mut teeth = [1.0f32; N];
        let mut i = 0;
        while i < N { teeth[i] = sym_f32(); i += 1; }
        let mut dev = GearTrain::<E>::new(teeth);
        let (t1, t2) = (dev.get_terminal_1(), dev.get_terminal_2());
        let d1 = put_state(t1, true).unwrap();
        vk_assert!(dev.update() == Ok(()), "C08.gear_train_new.update_ok");
        let ratio = teeth[0] / teeth[N - 1] * if N % 2 == 0 { -1.0 } else { 1.0 };
        vk_assert!(sds(held_state(t2), Some(Datum::new(d1.time, smap(d1.value, |x| x * ratio)))), "C08.gear_train_new.ratio_first_over_last_with_alternating_sign");
        vk_end!();
    }
    #[kani::proof] #[kani::unwind(9)] fn c08_teeth_2() { teeth_n::<2>(); }
    #[kani::proof] #[kani::unwind(9)] fn c08_teeth_3() { teeth_n::<3>(); }
    #[kani::proof] #[kani::unwind(9)] fn c08_teeth_4() { teeth_n::<4>(); }
    #[kani::proof] #[kani::unwind(9)] fn c08_teeth_5() { teeth_n::<5>(); }
    #[kani::proof] #[kani::unwind(9)] fn c08_teeth_6() { teeth_n::<6>(); }
    // ---- axle: every terminal gets the mean of the terminals that have data, newest time
    fn axle_n<const N: usize>() {
        let mut dev = Axle::<N, E>::new();
        let mut ds: [Option<Datum<State>>; N] = [None; N];
        let mut i = 0;
        while i < N { ds[i] = put_state(dev.get_terminal(i), sk(i) == 1); i += 1; }
        vk_assert!(dev.update() == Ok(()), "C08.axle.update_ok");
        let mut acc = State::new_raw(0.0, 0.0, 0.0);
        let mut tm: Option<Time> = None;
        let mut count = 0u16;
        let mut i = 0;
        while i < N {
            if let Some(d) = ds[i] {
                acc = smap2(acc, d.value, |x, y| x + y);
                tm = Some(match tm { None => d.time, Some(t) => newest(t, d.time) });
                count += 1;
            }
            i += 1;
        }
        let c = count as f32;
        let want = tm.map(|t| Datum::new(t, smap(acc, |x| x / c)));
        let mut i = 0;
        while i < N { vk_assert!(sds(held_state(dev.get_terminal(i)), want), "C08.axle.all_terminals_hold_mean_of_present_with_newest_time"); i += 1; }
        vk_end!();
    }
    #[kani::proof] #[kani::unwind(8)] fn c08_axle_1() { axle_n::<1>(); }
    #[kani::proof] #[kani::unwind(8)] fn c08_axle_2() { axle_n::<2>(); }
    #[kani::proof] #[kani::unwind(8)] fn c08_axle_3() { axle_n::<3>(); }
    #[kani::proof] #[kani::unwind(8)] fn c08_axle_4() { axle_n::<4>(); }
    #[kani::proof] #[kani::unwind(9)] fn c08_axle_5() { axle_n::<5>(); }
    // ---- differential: side1 + side2 = sum; distrusted branch recomputed from the other two; equal trust: Lagrange solution;
    // nothing is written until every branch the mode needs has data
    #[kani::proof]
    #[kani::unwind(4)]
    fn c08_differential() {
        let mode = sk(0);
        let mut dev = match mode { 0 => Differential::<E>::with_distrust(DifferentialDistrust::Side1), 1 => Differential::<E>::with_distrust(DifferentialDistrust::Side2),
                                   2 => Differential::<E>::with_distrust(DifferentialDistrust::Sum), 3 => Differential::<E>::with_distrust(DifferentialDistrust::Equal),
                                   _ => Differential::<E>::new() };
        let (t1, t2, ts) = (dev.get_side_1(), dev.get_side_2(), dev.get_sum());
        let (d1, d2, dsum) = (put_state(t1, sk(1) == 1), put_state(t2, sk(2) == 1), put_state(ts, sk(3) == 1));
        vk_assert!(dev.update() == Ok(()), "C08.differential.update_ok");
        let (mut w1, mut w2, mut ws) = (d1, d2, dsum);
        match mode {
            0 => if let (Some(s), Some(b)) = (dsum, d2) { w1 = Some(Datum::new(newest(s.time, b.time), smap2(s.value, b.value, |x, y| x - y))); },
            1 => if let (Some(s), Some(a)) = (dsum, d1) { w2 = Some(Datum::new(newest(s.time, a.time), smap2(s.value, a.value, |x, y| x - y))); },
            2 => if let (Some(a), Some(b)) = (d1, d2) { ws = Some(Datum::new(newest(a.time, b.time), smap2(a.value, b.value, |x, y| x + y))); },
            _ => if let (Some(a), Some(b), Some(s)) = (d1, d2, dsum) {
                let t = newest(newest(a.time, b.time), s.time);
                let f3 = |f: fn(f32, f32, f32) -> f32| State::new_raw(f(a.value.position, b.value.position, s.value.position), f(a.value.velocity, b.value.velocity, s.value.velocity),
                                                                        f(a.value.acceleration, b.value.acceleration, s.value.acceleration));
                ws = Some(Datum::new(t, f3(|x, y, z| (x + y + z * 2.0) / 3.0)));
                w1 = Some(Datum::new(t, f3(|x, y, z| (x * 2.0 - y + z) / 3.0)));
                w2 = Some(Datum::new(t, f3(|x, y, z| (-x + y * 2.0 + z) / 3.0)));
            },
        }
        vk_assert!(sds(held_state(t1), w1), "C08.differential.side1");
        vk_assert!(sds(held_state(t2), w2), "C08.differential.side2");
        vk_assert!(sds(held_state(ts), ws), "C08.differential.sum");
        vk_end!();
    }
}
'''


def lemmas():
    L = []
    V = {"x", "y", "z", "r", "a", "b"}
    L.append(lemma("C08.R.invert_projection_is_least_squares", V, set(), [],
                   "(<= (+ (* (- (/ (- x y) 2.0) x) (- (/ (- x y) 2.0) x)) (* (- (- (/ (- x y) 2.0)) y) (- (- (/ (- x y) 2.0)) y))) (+ (* (- a x) (- a x)) (* (- (- a) y) (- (- a) y))))"))
    gs = "(/ (+ x (* r y)) (+ (* r r) 1.0))"
    L.append(lemma("C08.R.gear_train_projection_is_least_squares", V, set(), [],
                   "(<= (+ (* (- %s x) (- %s x)) (* (- (* r %s) y) (- (* r %s) y))) (+ (* (- a x) (- a x)) (* (- (* r a) y) (- (* r a) y))))" % (gs, gs, gs, gs)))
    L.append(lemma("C08.R.gear_train_constraint_holds", V, set(), [], "(= (/ (* (+ x (* r y)) r) (+ (* r r) 1.0)) (* r %s))" % gs))
    L.append(lemma("C08.R.gear_train_fixed_point", V, set(), ["(= y (* r x))"], "(= %s x)" % gs))
    L.append(lemma("C08.R.invert_fixed_point", V, set(), ["(= y (- x))"], "(= (/ (- x y) 2.0) x)"))
    m = "(/ (+ (+ x y) z) 3.0)"
    L.append(lemma("C08.R.axle_mean_is_least_squares_n3", V, set(), [],
                   "(<= (+ (* (- %s x) (- %s x)) (* (- %s y) (- %s y)) (* (- %s z) (- %s z))) (+ (* (- a x) (- a x)) (* (- a y) (- a y)) (* (- a z) (- a z))))" % ((m,) * 6)))
    c_ = "(/ (+ (+ x y) (* z 2.0)) 3.0)"
    a_ = "(/ (+ (- (* x 2.0) y) z) 3.0)"
    b_ = "(/ (+ (+ (- x) (* y 2.0)) z) 3.0)"
    L.append(lemma("C08.R.differential_equal_trust_constraint_holds", V, set(), [], "(= (+ %s %s) %s)" % (a_, b_, c_)))
    L.append(lemma("C08.R.differential_equal_trust_is_least_squares", V, set(), [],
                   "(<= (+ (* (- %s x) (- %s x)) (* (- %s y) (- %s y)) (* (- %s z) (- %s z))) (+ (* (- a x) (- a x)) (* (- b y) (- b y)) (* (- (+ a b) z) (- (+ a b) z))))" % (a_, a_, b_, b_, c_, c_)))
    L.append(lemma("C08.R.differential_fixed_point", V, set(), ["(= z (+ x y))"], "(and (= %s x) (= %s y) (= %s z))" % (a_, b_, c_)))
    for l in L:
        l["note"] = "over the reals: the formulas proved bit-exact for the code are the least-squares projections onto the constraint"
    return L


def spec(ctx):
    b2 = list(itertools.product([0, 1], repeat=2))
    hs = [
        Harness("c08_invert", "e2", unwind=4, skeletons=b2, clause="inverter: every presence pattern of the two terminals, all f32 states, all i64 times"),
        Harness("c08_gear_train", "e2", unwind=4, skeletons=b2, clause="gear train: every presence pattern, ratio any f32"),
    ]
    hs += [Harness("c08_teeth_%d" % n, "e2", unwind=9, clause="GearTrain::new with %d tooth counts" % n) for n in ((2, 3, 4) if ctx.quick else (2, 3, 4, 5, 6))]
    ax = (1, 2, 3) if ctx.quick else (1, 2, 3, 4, 5)
    hs += [Harness("c08_axle_%d" % n, "e2", unwind=9, skeletons=list(itertools.product([0, 1], repeat=n)), clause="axle with %d terminals: every subset holding data" % n) for n in ax]
    hs.append(Harness("c08_differential", "e2", unwind=4, skeletons=[(m,) + p for m in range(5) for p in itertools.product([0, 1], repeat=3)],
                      clause="differential: 4 distrust modes (+ default constructor) x every presence pattern of the three branches"))
    return {
        "crates": [{"rust": RUST, "harnesses": hs}],
        "lemmas": lemmas(),
        "functions": ["Invert::update", "GearTrain::{with_ratio_raw, new, update}", "Axle::{new, update}", "Differential::{new, with_distrust, update}", "Terminal set/get_last_request/Getter<State>"],
        "bounds": {"device state": "update is a function of the terminals' contents only, so ONE update from arbitrary terminal contents (every presence pattern, all values) covers set/update histories of any length",
                   "axle sizes": list(ax), "tooth lists": "2..4 (quick) / 2..6", "values": "all f32 states and ratios, all i64 timestamps"},
        "assumptions": ["device terminals not linked to external terminals here; the effect of a link on what a terminal reads (mean of both sides) is C09's pair-read clause"],
        "not_decided": ["constraint residual / fixed point in f32 for gear train and differential (rounding); (R) lemmas are over the reals", "axle sizes 0 and above %d" % ax[-1]],
    }
