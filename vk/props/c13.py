"""C13 One-degree-of-freedom devices relay the newest command to every terminal, scaled."""
import itertools

from .. import dev
from ..core import Harness
from . import c09

RUST = r'''
#[cfg(kani)]
mod c13 {
    use super::*;
''' + dev.RUST + r'''
    fn is(a: Option<Datum<Command>>, t: Time, c: Command) -> bool { match a { Some(d) => d.time == t && same_cmd(d.value, c), None => false } }

    // ---- inverter: newest of side 1 and (negated) side 2, written to both sides (negated on side 2)
    #[kani::proof]
    #[kani::unwind(4)]
    fn c13_invert() {
        let mut dev = Invert::<E>::new();
        let (t1, t2) = (dev.get_terminal_1(), dev.get_terminal_2());
        let (c1, c2) = (put_cmd(t1, sk(0) == 1), put_cmd(t2, sk(1) == 1));
        vk_assert!(dev.update() == Ok(()), "C13.invert.update_ok");
        let (g1, g2) = (held_cmd(t1), held_cmd(t2));
        let from1 = |c: Datum<Command>| is(g1, c.time, c.value) && is(g2, c.time, cmap(c.value, |x| -x));
        let from2 = |c: Datum<Command>| is(g1, c.time, cmap(c.value, |x| -x)) && is(g2, c.time, cmap(cmap(c.value, |x| -x), |x| -x));
        let ok = match (c1, c2) {
            (None, None) => g1.is_none() && g2.is_none(),
            (Some(a), None) => from1(a),
            (None, Some(b)) => from2(b),
            (Some(a), Some(b)) => (a.time >= b.time && from1(a)) || (b.time >= a.time && from2(b)),     // either on a tie
        };
        vk_assert!(ok, "C13.invert.newest_command_on_both_sides_negated_across");
        vk_end!();
    }
    // ---- gear train: newer side wins; multiplied by the ratio from side 1 to side 2, divided the other way
    #[kani::proof]
    #[kani::unwind(4)]
    fn c13_gear_train() {
        let r = sym_f32();
        let mut dev = GearTrain::<E>::with_ratio_raw(r);
        let (t1, t2) = (dev.get_terminal_1(), dev.get_terminal_2());
        let (c1, c2) = (put_cmd(t1, sk(0) == 1), put_cmd(t2, sk(1) == 1));
        vk_assert!(dev.update() == Ok(()), "C13.gear_train.update_ok");
        let (g1, g2) = (held_cmd(t1), held_cmd(t2));
        let from1 = |c: Datum<Command>| is(g1, c.time, c.value) && is(g2, c.time, cmap(c.value, |x| x * r));
        let from2 = |c: Datum<Command>| is(g1, c.time, cmap(c.value, |x| x / r)) && is(g2, c.time, c.value);
        let ok = match (c1, c2) {
            (None, None) => g1.is_none() && g2.is_none(),
            (Some(a), None) => from1(a),
            (None, Some(b)) => from2(b),
            (Some(a), Some(b)) => (a.time >= b.time && from1(a)) || (b.time >= a.time && from2(b)),
        };
        vk_assert!(ok, "C13.gear_train.newest_command_scaled_by_ratio_across");
        vk_end!();
    }
    // ---- axle: newest of all terminals broadcast unchanged
    fn axle_n<const N: usize>() {
        let mut dev = Axle::<N, E>::new();
        let mut cs: [Option<Datum<Command>>; N] = [None; N];
        let mut i = 0;
        while i < N { cs[i] = put_cmd(dev.get_terminal(i), sk(i) == 1); i += 1; }
        vk_assert!(dev.update() == Ok(()), "C13.axle.update_ok");
        let mut tm: Option<Time> = None;
        let mut i = 0;
        while i < N { if let Some(c) = cs[i] { tm = Some(match tm { None => c.time, Some(t) => if t >= c.time { t } else { c.time } }); } i += 1; }
        let g0 = held_cmd(dev.get_terminal(0));
        match tm {
            None => { let mut i = 0; while i < N { vk_assert!(held_cmd(dev.get_terminal(i)).is_none(), "C13.axle.no_command_anywhere"); i += 1; } }
            Some(t) => {
                let mut cand = false;
                let mut i = 0;
                while i < N { if let Some(c) = cs[i] { if c.time == t && is(g0, c.time, c.value) { cand = true; } } i += 1; }
                vk_assert!(cand, "C13.axle.broadcast_command_is_a_newest_issued_one_unchanged");
                let mut i = 0;
                while i < N { vk_assert!(sdc(held_cmd(dev.get_terminal(i)), g0), "C13.axle.every_terminal_holds_the_same_command"); i += 1; }
            }
        }
        vk_end!();
    }
    #[kani::proof] #[kani::unwind(8)] fn c13_axle_1() { axle_n::<1>(); }
    #[kani::proof] #[kani::unwind(8)] fn c13_axle_2() { axle_n::<2>(); }
    #[kani::proof] #[kani::unwind(8)] fn c13_axle_3() { axle_n::<3>(); }
    #[kani::proof] #[kani::unwind(8)] fn c13_axle_4() { axle_n::<4>(); }
    #[kani::proof] #[kani::unwind(9)] fn c13_axle_5() { axle_n::<5>(); }
    // ---- a differential never alters the commands of its terminals
    #[kani::proof]
    #[kani::unwind(4)]
    fn c13_differential() {
        let mode = sk(0);
        let mut dev = match mode { 0 => Differential::<E>::with_distrust(DifferentialDistrust::Side1), 1 => Differential::<E>::with_distrust(DifferentialDistrust::Side2),
                                   2 => Differential::<E>::with_distrust(DifferentialDistrust::Sum), _ => Differential::<E>::with_distrust(DifferentialDistrust::Equal) };
        let (t1, t2, ts) = (dev.get_side_1(), dev.get_side_2(), dev.get_sum());
        let (c1, c2, c3) = (put_cmd(t1, sk(1) == 1), put_cmd(t2, sk(2) == 1), put_cmd(ts, sk(3) == 1));
        // states present everywhere so that the state part of update really runs
        let _ = (put_state(t1, true), put_state(t2, true), put_state(ts, true));
        vk_assert!(dev.update() == Ok(()), "C13.differential.update_ok");
        vk_assert!(sdc(held_cmd(t1), c1) && sdc(held_cmd(t2), c2) && sdc(held_cmd(ts), c3), "C13.differential.commands_untouched");
        vk_end!();
    }
@TERMINAL_READS@
    // ---- chain: device A side 2 linked to device B side 1; a command issued at A's side 1 reaches B's side 2, mapped by
    // both devices in order, once A then B have been updated. kinds: 0 inverter, 1 gear train
    #[kani::proof]
    #[kani::unwind(4)]
    fn c13_chain() {
        let (ka, kb) = (sk(0), sk(1));
        let (ra, rb) = (sym_f32(), sym_f32());
        let mut ia = Invert::<E>::new();
        let mut ib = Invert::<E>::new();
        let mut ga = GearTrain::<E>::with_ratio_raw(ra);
        let mut gb = GearTrain::<E>::with_ratio_raw(rb);
        let (a1, a2) = if ka == 0 { (ia.get_terminal_1(), ia.get_terminal_2()) } else { (ga.get_terminal_1(), ga.get_terminal_2()) };
        let (b1, b2) = if kb == 0 { (ib.get_terminal_1(), ib.get_terminal_2()) } else { (gb.get_terminal_1(), gb.get_terminal_2()) };
        connect(a2, b1);
        let c = put_cmd(a1, true).unwrap();
        if ka == 0 { vk_assert!(ia.update() == Ok(()), "C13.chain.update_a"); } else { vk_assert!(ga.update() == Ok(()), "C13.chain.update_a"); }
        if kb == 0 { vk_assert!(ib.update() == Ok(()), "C13.chain.update_b"); } else { vk_assert!(gb.update() == Ok(()), "C13.chain.update_b"); }
        let mid = if ka == 0 { cmap(c.value, |x| -x) } else { cmap(c.value, |x| x * ra) };
        let far = if kb == 0 { cmap(mid, |x| -x) } else { cmap(mid, |x| x * rb) };
        let read_b2: Output<Command, E> = b2.borrow().get();
        // f32 multiplication is commutative bit-for-bit: accept the factors in either order at both stages
        let x0 = f32::from(c.value);
        let alts = if ka == 1 && kb == 1 { [(x0 * ra) * rb, rb * (x0 * ra), (ra * x0) * rb, rb * (ra * x0)] } else { let v = f32::from(far); [v, v, v, v] };
        vk_assert!(match read_b2 { Ok(Some(d)) => d.time == c.time && PositionDerivative::from(d.value) == PositionDerivative::from(c.value)
            && (same(f32::from(d.value), alts[0]) || same(f32::from(d.value), alts[1]) || same(f32::from(d.value), alts[2]) || same(f32::from(d.value), alts[3])), _ => false },
            "C13.chain.command_reaches_far_end_with_product_mapping");
        let read_b1: Output<Command, E> = b1.borrow().get();
        vk_assert!(match read_b1 { Ok(Some(d)) => d.time == c.time && same_cmd(d.value, mid), _ => false }, "C13.chain.linked_terminal_reads_the_relayed_command");
        vk_end!();
    }
}
'''


def spec(ctx):
    b2 = list(itertools.product([0, 1], repeat=2))
    ax = (1, 2, 3) if ctx.quick else (1, 2, 3, 4, 5)
    hs = [
        Harness("c13_invert", "e2", unwind=4, skeletons=b2, clause="inverter: every presence pattern, all command kinds / values / timestamps"),
        Harness("c13_gear_train", "e2", unwind=4, skeletons=b2, clause="gear train: every presence pattern, ratio any f32"),
    ]
    hs += [Harness("c13_axle_%d" % n, "e2", unwind=9, skeletons=list(itertools.product([0, 1], repeat=n)), clause="axle with %d terminals: every subset holding a command" % n) for n in ax]
    hs.append(Harness("c13_differential", "e2", unwind=4, skeletons=[(m,) + p for m in range(4) for p in itertools.product([0, 1], repeat=3)], clause="differential: commands untouched in every mode / presence pattern"))
    hs.append(Harness("c13_terminal_reads", "e2", timeout=300, skeletons=list(itertools.product([0, 1], repeat=5)),
                      clause="a terminal's command read is the newer of its own and its partner's command (every presence pattern, linked or not): what a device sees at a linked terminal"))
    hs.append(Harness("c13_chain", "e2", unwind=4, split=True, skeletons=[(0, 0), (0, 1), (1, 0)], timeout=200, clause="chain of two devices (inverter / gear train in every order) joined by connected terminals"))
    return {
        "crates": [{"rust": RUST.replace("@TERMINAL_READS@", c09.READS.replace("fn c09_pair_reads", "fn c13_terminal_reads").replace('"C09.pair.', '"C13.terminal.')), "harnesses": hs}],
        "functions": ["Invert::update", "GearTrain::update", "Axle::update", "Differential::update (command part)", "Getter<Command> for Terminal", "connect", "Command Mul/Div/Neg, Datum<Command> ops"],
        "bounds": {"device state": "ONE update from arbitrary terminal contents (every presence pattern, all values, all timestamps) - update is a function of the terminal contents only, so this covers any number of rounds of new commands",
                   "axle sizes": list(ax), "chains": "2 devices, every combination of inverter / gear train"},
        "assumptions": ["on an exact timestamp tie either command may win (the property asks for the most recently issued one)"],
        "not_decided": ["the gear-train -> gear-train chain (two chained f32 multiplications through two terminal stores: cvc5/z3 do not finish in 200 s; the single-device "
                        "scaling and the relay through a link are decided separately)", "chains longer than 2 devices (follows by composing the two-device step)", "axle sizes above %d" % ax[-1]],
    }
