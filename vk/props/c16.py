"""C16 No safe use of the API reads uninitialised memory, goes out of bounds or dangles."""
import os
import re

from .. import core
from ..core import Harness
from . import c02, c09

CTOR = {
    # type -> (constructor expression, accessor-argument expression or "")
    "Invert": "Invert::<E>::new()",
    "GearTrain": "GearTrain::<E>::with_ratio_raw(2.0)",
    "Axle": "Axle::<3, E>::new()",
    "Differential": "Differential::<E>::new()",
    "ActuatorWrapper": "ActuatorWrapper::<Sink<TerminalData>, E>::new(Sink::new())",
    "GetterStateDeviceWrapper": "GetterStateDeviceWrapper::<One<State>, E>::new(One(Ev::None))",
    "PIDWrapper": ("PIDWrapper::<Sink<f32>, E>::new(Sink::new(), Time(0), State::new_raw(0.0, 0.0, 0.0), Command::Position(0.0), "
                   "PositionDerivativeDependentPIDKValues::new(PIDKValues::new(1.0, 0.0, 0.0), PIDKValues::new(1.0, 0.0, 0.0), PIDKValues::new(1.0, 0.0, 0.0)))"),
}


def find_accessors(repo):
    """Every pub fn returning &'a RefCell<Terminal<'a, E>> from &self, with the type of its impl block."""
    out, unknown = [], []
    for rel in ("src/devices.rs", "src/devices/wrappers.rs", "src/lib.rs"):
        p = os.path.join(repo, rel)
        if not os.path.exists(p):
            continue
        src = open(p).read()
        cur = None
        for ln, line in enumerate(src.splitlines(), 1):
            m = re.match(r"impl<.*> (\w+)<'a", line)
            if m:
                cur = m.group(1)
            elif line.startswith("impl"):
                cur = None
            m = re.match(r"\s*pub fn (\w+)\(&self(, \w+: usize)?\) -> &'a RefCell<Terminal<'a, E>>", line)
            if m:
                if cur in CTOR:
                    out.append({"type": cur, "fn": m.group(1), "arg": "1" if m.group(2) else "", "where": "%s:%d" % (rel, ln)})
                else:
                    unknown.append("%s:%d %s::%s" % (rel, ln, cur, m.group(1)))
    return out, unknown


def raw_pointer_ctors(repo):
    """Syntactic guard (NOT a solver verdict): every constructor of a raw-pointer Reference variant must be `unsafe fn`."""
    src = open(os.path.join(repo, "src", "reference.rs")).read()
    bad = []
    for m in re.finditer(r"pub (const )?(unsafe )?fn (from_ptr\w*)\(", src):
        if not m.group(2):
            bad.append("reference.rs:%d %s is not an unsafe fn" % (src[:m.start()].count("\n") + 1, m.group(3)))
    n = len(re.findall(r"pub (?:const )?unsafe fn from_ptr\w*\(", src))
    return bad, n


def dangle_fn(acc, template):
    name = "c16_dangle_%s_%s_%s" % (acc["type"].lower(), acc["fn"], template)
    call = "dev.%s(%s)" % (acc["fn"], acc["arg"])
    if template == "scope":
        body = ("        let r;\n        {\n            let dev = %s;\n            r = %s;\n            kani::cover!(true, \"vk_end\");\n        }\n" % (CTOR[acc["type"]], call))
    else:
        body = ("        let dev = Box::new(%s);\n        let r = %s;\n        kani::cover!(true, \"vk_end\");\n        drop(dev);\n" % (CTOR[acc["type"]], call))
    # a SAFE program: take the terminal reference, end the device's life, then read through the reference
    return name, ("    #[kani::proof]\n    #[kani::unwind(5)]\n    fn %s() {\n%s        let g: Output<State, E> = r.borrow().get();\n"
                  "        vk_assert!(g.is_ok(), \"C16.read_through_reference_after_device_died\");\n    }\n" % (name, body))


AXLE = r'''
    // Axle::new for N = 0..5: every terminal is initialised (write + read through each, then update)
    fn axle_n<const N: usize>() {
        let mut ax = Axle::<N, E>::new();
        let mut i = 0;
        while i < N {
            let t = ax.get_terminal(i);
            let none: Output<State, E> = t.borrow().get();
            vk_assert!(none == Ok(None), "C16.axle.new_terminal_is_empty");
            let none_c: Output<Command, E> = t.borrow().get();
            vk_assert!(none_c == Ok(None), "C16.axle.new_terminal_has_no_command");
            i += 1;
        }
        let mut i = 0;
        while i < N {
            let d = Datum::new(Time(i as i64), State::new_raw(i as f32, 0.0, 0.0));
            ax.get_terminal(i).borrow_mut().set(d).unwrap();
            let back: Option<Datum<State>> = ax.get_terminal(i).borrow().get_last_request();
            vk_assert!(back == Some(d), "C16.axle.terminal_write_read");
            i += 1;
        }
        vk_assert!(ax.update() == Ok(()), "C16.axle.update_ok");
        vk_end!();
    }
    #[kani::proof] #[kani::unwind(8)] fn c16_axle_1() { axle_n::<1>(); }
    #[kani::proof] #[kani::unwind(8)] fn c16_axle_2() { axle_n::<2>(); }
    #[kani::proof] #[kani::unwind(8)] fn c16_axle_3() { axle_n::<3>(); }
    #[kani::proof] #[kani::unwind(8)] fn c16_axle_5() { axle_n::<5>(); }
'''

DEREF = r"dereference failure"


def spec(ctx):
    accs, unknown = find_accessors(core.REPO)
    raw_bad, raw_n = raw_pointer_ctors(core.REPO)
    # PIDWrapper: CBMC's symex of the wrapper's Rc<RefCell<dyn ...>> graph teardown did not terminate in 15 min (measured);
    # its accessor is the same lifetime-extending cast, but it is not decided by the solver and is excluded from the claim
    skipped = [a for a in accs if a["type"] == "PIDWrapper"]
    accs = [a for a in accs if a["type"] != "PIDWrapper"]
    ar = [1, 2, 3, 4] if ctx.quick else [1, 2, 3, 4, 5, 6]
    kinds = ["sum", "product"]
    nary = "\n".join(c02.nary_fn(n, k) for n in ar for k in kinds).replace("fn c02_", "fn c16_nary_").replace("C02.", "C16.nary.")
    helpers = c02.RUST[c02.RUST.index("    fn sym_ev(id: u64)"):c02.RUST.index("    // ---------------- n-ary sum")]
    pair = c09.READS.replace("fn c09_pair_reads", "fn c16_terminal_read").replace("C09.pair.", "C16.terminal_read.")
    templates = ["scope"] if ctx.quick else ["scope", "boxed"]
    # the Box template for Axle / Differential (3 terminals + heap teardown) exceeds 400 s of symex+SAT (measured): scope template only
    dangles = [dangle_fn(a, t) for a in accs for t in templates if not (t == "boxed" and a["type"] in ("Axle", "Differential"))]
    rust = ("#[cfg(kani)]\nmod c16 {\n    use super::*;\n    use rrtk::devices::{wrappers::*, *};\n    use rrtk::streams::{math::*, *};\n"
            + helpers + nary + pair + AXLE + "".join(d[1] for d in dangles) + "}\n")
    import itertools
    hs = [Harness("c16_nary_%s_%d" % (k, n), "e1", unwind=n + 2, timeout=300,
                  clause="%s stream, %d inputs: result equals the reference for every nondeterministic content of unwritten MaybeUninit slots; no index out of range" % (k, n))
          for n in ar for k in kinds]
    hs.append(Harness("c16_terminal_read", "e2", timeout=300, skeletons=list(itertools.product([0, 1], repeat=5)),
                      clause="terminal state read: all own/partner presence combinations, only initialised addends are used"))
    hs += [Harness("c16_axle_%d" % n, "e1", unwind=8, clause="Axle::new with %d terminals: every element written before the array is read out" % n) for n in (1, 2, 3, 5)]
    for name, _ in dangles:
        hs.append(Harness(name, "e1", unwind=5, timeout=400, clause="safe program: take terminal reference, end the device's life, read through it (CBMC dead-object / freed-object checks)"))
    return {
        "crates": [{"rust": rust, "harnesses": hs}],
        "problems": ["accessor on a type the generator has no constructor for: " + u for u in unknown] + ["raw-pointer constructor callable from safe code: " + b for b in raw_bad],
        "functions": ["SumStream::get", "ProductStream::get", "Getter<State> for Terminal", "Axle::new"] + ["%s::%s (%s)" % (a["type"], a["fn"], a["where"]) for a in accs],
        "bounds": {"arity": ar, "axle sizes": [1, 2, 3, 5], "program templates for the lifetime clause": templates, "accessors found": len(accs)},
        "assumptions": ["CBMC models a read of never-written MaybeUninit memory as a nondeterministic value (calibrated: cal_uninit_is_nondet)",
                        "CBMC's dead-object / deallocated-object pointer checks"],
        "not_decided": ["'no safe program' beyond the fixed program templates (a statement about the type checker)",
                        "'raw-pointer Reference variants only constructible through unsafe': not a solver question; guarded syntactically by the generator (%d `unsafe fn from_ptr*` constructors found; a safe one makes the check exit 2)" % raw_n,
                        "the lifetime clause for PIDWrapper::get_terminal (symex of the Rc/dyn graph teardown does not terminate within 15 min)" if skipped else "",
                        "arities 7 and 8; axle sizes 4, 6..8; axle size 0 (CBMC cannot resolve the pointer comparison that ends iteration over a zero-length array, so symex does not terminate within the unwinding bound)"],
    }
