"""C06 Motion profile accessors agree with each other at every instant."""
import os

from .. import mp
from ..core import Harness

# the constructor's own acceptance assertions: a failing one means "the constructor did not accept these inputs"
CTOR_REJECTS = r"assertion failed: f32::from\((t1|d_t3|d_t2)\) >= 0\.0 @rrtk::MotionProfile::new"

RUST = r'''
#[cfg(kani)]
mod c06 {
    use super::*;
''' + mp.RUST + r'''
    fn check_instant(m: &MotionProfile, end_cmd: Command, t: i64, tend: Option<i64>) {
        let piece = m.get_piece(Time(t));
        let mode = m.get_mode(Time(t));
        let acc = m.get_acceleration(Time(t));
        let vel = m.get_velocity(Time(t));
        let pos = m.get_position(Time(t));
        let h = <MotionProfile as History<Command, E>>::get(m, Time(t));
        vk_assert!((piece == MotionProfilePiece::BeforeStart) == (t < 0), "C06.before_start_iff_negative_time");
        vk_assert!(mode.is_none() == (t < 0) && acc.is_none() == (t < 0) && h.is_none() == (t < 0), "C06.mode_acceleration_history_absent_iff_negative_time");
        let endk = PositionDerivative::from(end_cmd);
        let want_mode = match piece {
            MotionProfilePiece::BeforeStart => None,
            MotionProfilePiece::InitialAcceleration | MotionProfilePiece::EndAcceleration => Some(PositionDerivative::Acceleration),
            MotionProfilePiece::ConstantVelocity => Some(PositionDerivative::Velocity),
            MotionProfilePiece::Complete => Some(endk),
        };
        vk_assert!(mode == want_mode, "C06.mode_follows_piece");
        if let Some(tend) = tend { vk_assert!((piece == MotionProfilePiece::Complete) == (t >= 0 && t >= tend), "C06.complete_iff_at_or_after_last_phase_boundary"); }
        match piece {
            MotionProfilePiece::BeforeStart => { vk_assert!(vel.is_none() && pos.is_none(), "C06.no_velocity_position_before_start"); }
            MotionProfilePiece::Complete => {
                vk_assert!(vel.is_some() == (endk != PositionDerivative::Acceleration), "C06.velocity_after_completion_iff_end_command_fixes_it");
                vk_assert!(pos.is_some() == (endk == PositionDerivative::Position), "C06.position_after_completion_iff_end_command_fixes_it");
                vk_assert!(match h { Some(d) => same_cmd(d.value, end_cmd), None => false }, "C06.history_after_completion_is_end_states_lowest_nonzero_derivative");
            }
            _ => { vk_assert!(vel.is_some() && pos.is_some(), "C06.velocity_position_present_throughout_the_move"); }
        }
        if let Some(d) = h {
            vk_assert!(d.time.0 == t, "C06.history_stamped_with_query_time");
            vk_assert!(Some(PositionDerivative::from(d.value)) == mode, "C06.history_kind_is_mode");
            let v = f32::from(d.value);
            let ok = match PositionDerivative::from(d.value) {
                PositionDerivative::Position => match pos { Some(q) => same(v, q.value), None => false },
                PositionDerivative::Velocity => match vel { Some(q) => same(v, q.value), None => false },
                PositionDerivative::Acceleration => match acc { Some(q) => same(v, q.value), None => false },
            };
            vk_assert!(ok, "C06.history_value_bit_identical_to_matching_accessor");
        }
        if let Some(q) = acc { vk_assert!(q.unit == MILLIMETER_PER_SECOND_SQUARED, "C06.acceleration_unit"); }
        if let Some(q) = vel { vk_assert!(q.unit == MILLIMETER_PER_SECOND, "C06.velocity_unit"); }
        if let Some(q) = pos { vk_assert!(q.unit == MILLIMETER, "C06.position_unit"); }
    }
    // (a) through the REAL constructor: all start/end states and limits (f32), all i64 query times
    #[kani::proof]
    fn c06_accessors_agree() {
        let i = sym_in();
        let m = build(&i);
        let p = parts(&m);
        kani::assume(sane(&p));
        let t: i64 = kani::any();
        check_instant(&m, Command::from(State::new_raw(i.p1, i.v1, i.a1)), t, None);
        vk_end!();
    }
    // (b) piece order on a profile with ARBITRARY phase boundaries (no ordering assumed): never goes back as t grows
    #[kani::proof]
    fn c06_pieces_never_go_back() {
        let (t1, t2, t3): (i64, i64, i64) = (kani::any(), kani::any(), kani::any());
        let m = MotionProfile::vk_from_parts(Quantity::new(sym_f32(), MILLIMETER), Quantity::new(sym_f32(), MILLIMETER_PER_SECOND), Time(t1), Time(t2), Time(t3),
                                            Quantity::new(sym_f32(), MILLIMETER_PER_SECOND_SQUARED), Command::new(sym_kind(), sym_f32()));
        let (ta, tb): (i64, i64) = (kani::any(), kani::any());
        kani::assume(ta <= tb);
        let (pa, pb) = (m.get_piece(Time(ta)), m.get_piece(Time(tb)));
        vk_assert!(ord(pa) <= ord(pb), "C06.pieces_never_go_back_as_time_grows");
        // with ordered boundaries the pieces are exactly the intervals [0,t1) [t1,t2) [t2,t3) [t3,inf)
        if 0 <= t1 && t1 <= t2 && t2 <= t3 {
            let want = if ta < 0 { 0 } else if ta < t1 { 1 } else if ta < t2 { 2 } else if ta < t3 { 3 } else { 4 };
            vk_assert!(ord(pa) == want, "C06.piece_intervals");
        }
        // the whole per-instant agreement also on arbitrary boundaries; completion = the last phase boundary
        // (that this is t3 for constructor-built profiles is the ordering clause (c))
        kani::assume(sane(&parts(&m)));
        let (_, _, _, _, _, _, end) = m.vk_parts();
        check_instant(&m, end, ta, Some(max_t(max_t(t1, t2), t3)));
        vk_end!();
    }
    // (c'') the three f32 facts from which 0 <= t1 <= t2 <= t3 follows for every accepted profile (the constructor asserts
    // t1f >= 0, d_t2 >= 0, d_t3 >= 0, sets t2f = t1f + d_t2, t3f = t2f + d_t3 and truncates each with `(x * 1e9) as i64`,
    // which C07 proves bit-exactly): addition of a non-negative term does not decrease, and x -> (x * 1e9) as i64 is
    // monotone and non-negative on non-negative x. Each fact is decided over ALL f32; their composition is an argument.
    #[kani::proof]
    fn c06_lemma_add_monotone() {
        let (x, d): (f32, f32) = (kani::any(), kani::any());
        kani::assume(x >= 0.0 && d >= 0.0);
        vk_assert!(x + d >= x, "C06.lemma.adding_a_non_negative_duration_does_not_decrease");
        vk_end!();
    }
    #[kani::proof]
    fn c06_lemma_trunc_monotone() {
        let (x, y): (f32, f32) = (kani::any(), kani::any());
        kani::assume(x >= 0.0 && x <= y);
        let (a, b) = ((x * 1_000_000_000.0) as i64, (y * 1_000_000_000.0) as i64);
        vk_assert!(0 <= a, "C06.lemma.truncation_to_ns_is_non_negative_on_non_negative_seconds");
        vk_assert!(a <= b, "C06.lemma.truncation_to_ns_is_monotone");
        vk_end!();
    }
    // (c') the same ordering clause on a bounded input grid: positions / velocities / limits k * 0.25 with k in i8
    // (limits non-zero). Within this grid the clause IS decided (CaDiCaL); outside it, it is not (see not_decided).
    #[kani::proof]
    fn c06_constructor_orders_phases_grid() {
        let g = || -> f32 { let k: i8 = kani::any(); (k as f32) * 0.25 };
        let i = In { p0: g(), v0: g(), a0: 0.0, p1: g(), v1: g(), a1: 0.0, mv: g(), ma: g() };
        let m = build(&i);
        let p = parts(&m);
        vk_assert!(0 <= p.t1, "C06.ctor_grid.t1_non_negative");
        vk_assert!(p.t1 <= p.t2, "C06.ctor_grid.t1_le_t2");
        vk_assert!(p.t2 <= p.t3, "C06.ctor_grid.t2_le_t3");
        vk_end!();
    }
    // (c) the constructor either panics or yields 0 <= t1 <= t2 <= t3
    #[kani::proof]
    fn c06_constructor_orders_phases() {
        let i = sym_in();
        let m = build(&i);
        let p = parts(&m);
        vk_assert!(0 <= p.t1, "C06.ctor.t1_non_negative");
        vk_assert!(p.t1 <= p.t2, "C06.ctor.t1_le_t2");
        vk_assert!(p.t2 <= p.t3, "C06.ctor.t2_le_t3");
        vk_end!();
    }
}
'''


def spec(ctx):
    hs = [
        Harness("c06_accessors_agree", "e2", timeout=400, split=True, allow_fail=CTOR_REJECTS, clause="real constructor, all f32 inputs on which it returns, all i64 query times: piece/mode/acceleration/velocity/position/history describe the same instant"),
        Harness("c06_pieces_never_go_back", "e2", split=True, timeout=400, clause="arbitrary phase boundaries (hook): piece order monotone in t; exact intervals when ordered"),
    ]
    nd = ["phase boundaries at or beyond 2^60 ns (rrtk's checked i64 arithmetic may panic there)"]
    if os.environ.get("VK_C06_LEMMAS"):
        hs.append(Harness("c06_lemma_add_monotone", "e1", timeout=1500, clause="f32: x >= 0, d >= 0 => x + d >= x (all f32)"))
        hs.append(Harness("c06_lemma_trunc_monotone", "e1", timeout=1500, clause="f32: 0 <= x <= y => 0 <= (x*1e9) as i64 <= (y*1e9) as i64 (all f32)"))
    if not ctx.quick and os.environ.get("VK_C06_GRID"):
        hs.append(Harness("c06_constructor_orders_phases_grid", "e1", timeout=3000, allow_fail=CTOR_REJECTS,
                          clause="constructor ordering 0 <= t1 <= t2 <= t3 on the input grid k*0.25, k in i8 (6 inputs)"))
    # measured (thorough run, 2026-10-03): t1 >= 0 is proved, t1 <= t2 and t2 <= t3 do not finish in 900 s per query on either solver.
    # They need monotonicity of f32 '+', '* 1e9' and of the saturating float->int cast: non-structural facts. The harness is kept
    # in the generated crate for reference but is not part of either tier.
    nd.append("'the constructor either panics or yields 0 <= t1 <= t2 <= t3': t1 >= 0 is decided (C07 proves t1 == trunc(t1f*1e9) with t1f >= 0 asserted by the constructor), "
              "t1 <= t2 <= t3 is NOT decided (cvc5 and z3 both exceed 900 s). Of the three f32 facts it reduces to, 'x >= 0, d >= 0 => x + d >= x' IS decided for all f32 "
              "(CaDiCaL, env VK_C06_LEMMAS=1), but 'x <= y => (x*1e9) as i64 <= (y*1e9) as i64' is not (CaDiCaL 1500 s; z3 and cvc5 on the native FloatingPoint theory 900 s each)")
    return {
        "crates": [{"rust": RUST, "harnesses": hs}],
        "functions": ["MotionProfile::{new, get_piece, get_mode, get_acceleration, get_velocity, get_position}", "History<Command> for MotionProfile",
                      "Command::from(State)", "PositionDerivative::from(Command)"],
        "bounds": {"inputs": "start/end states, max velocity, max acceleration: all f32 bit patterns for which new() returns", "query time": "all i64",
                   "phase boundaries": "|t1|,|t2|,|t3| < 2^60 ns for the accessor-agreement clause"},
        "assumptions": ["cfg(kani) hook MotionProfile::vk_parts / vk_from_parts (add-only) reads / sets the private phase boundaries"],
        "not_decided": nd,
    }
