"""C04 PIDControllerStream output equals the textbook discrete PID of its input history."""
from .. import hist
from ..core import Harness
from ..dsl import V, lemma

RUST = r'''
#[cfg(kani)]
mod c04 {
    use super::*;
    use rrtk::streams::control::*;
''' + hist.RUST + r'''
    /// Textbook discrete PID over the samples since the last absent / errored input:
    /// e = setpoint - x; I += dt*(e_prev + e)/2 (trapezoid), D = (e - e_prev)/dt (backward difference), both 0 on the first sample.
    pub struct Spec { sp: f32, kp: f32, ki: f32, kd: f32, prev: Option<(i64, f32)>, int: f32, out: Output<f32, E> }
    impl Spec {
        pub fn step(&mut self, ev: Ev<f32>) {
            match ev {
                Ev::None => { self.prev = None; self.int = 0.0; self.out = Ok(None); }
                Ev::Err(e) => { self.prev = None; self.int = 0.0; self.out = Err(Error::Other(e)); }
                Ev::Some(t, x) => {
                    let e = self.sp - x;
                    let (add, d) = match self.prev {
                        Some((tp, ep)) => { let dt = secs(t - tp); (dt * (ep + e) / 2.0, (e - ep) / dt) }
                        None => (0.0, 0.0),
                    };
                    self.int += add;
                    self.out = Ok(Some(Datum::new(Time(t), self.kp * e + self.ki * self.int + self.kd * d)));
                    self.prev = Some((t, e));
                }
            }
        }
    }
    #[kani::proof]
    #[kani::unwind(9)]
    fn c04_pid() {
        let k = sk(0) as usize;
        let mut evs = [Ev::None; KMAX];
        let mut i = 0;
        while i < k { evs[i] = ev_f32(sk(1 + i)); i += 1; }
        let mut script = Script::<f32, KMAX>::new(evs);
        let r = ptr_ref(&mut script);
        let (sp, kp, ki, kd) = (sym_f32(), sym_f32(), sym_f32(), sym_f32());
        let mut pid = PIDControllerStream::new(r.clone(), sp, PIDKValues::new(kp, ki, kd));
        let mut m = Spec { sp, kp, ki, kd, prev: None, int: 0.0, out: Ok(None) };
        vk_assert!(pid.get() == Ok(None), "C04.absent_before_first_update");
        let mut i = 0;
        while i < k {
            r.borrow_mut().idx = i;
            let res = pid.update();
            m.step(evs[i]);
            vk_assert!(upd_ok(res, err_of(evs[i])), "C04.update_returns_input_error_else_ok");
            let got = pid.get();
            vk_assert!(out_same_f32(&got, &m.out), "C04.output_is_textbook_pid_of_history");
            vk_assert!(out_same_f32(&pid.get(), &got), "C04.get_is_pure");
            i += 1;
        }
        vk_assert!(script.updates == 0, "C04.input_not_updated_by_stream");
        vk_end!();
    }
    // PIDKValues::evaluate and the per-derivative container
    #[kani::proof]
    fn c04_kvalues() {
        let (kp, ki, kd, e, i, d) = (sym_f32(), sym_f32(), sym_f32(), sym_f32(), sym_f32(), sym_f32());
        let k = PIDKValues::new(kp, ki, kd);
        vk_assert!(same(k.evaluate(e, i, d), kp * e + ki * i + kd * d), "C04.kvalues.evaluate");
        let (k2, k3) = (PIDKValues::new(sym_f32(), sym_f32(), sym_f32()), PIDKValues::new(sym_f32(), sym_f32(), sym_f32()));
        let all = PositionDerivativeDependentPIDKValues::new(k, k2, k3);
        let which = sym_kind();
        let want = match which { PositionDerivative::Position => k, PositionDerivative::Velocity => k2, PositionDerivative::Acceleration => k3 };
        let g = all.get_k_values(which);
        vk_assert!(same(g.kp, want.kp) && same(g.ki, want.ki) && same(g.kd, want.kd), "C04.kvalues.selected_by_kind");
        vk_assert!(same(all.evaluate(which, e, i, d), want.kp * e + want.ki * i + want.kd * d), "C04.kvalues.evaluate_by_kind");
        vk_end!();
    }
}
'''


def spec(ctx):
    K = 4 if ctx.quick else 6
    sks = hist.histories(K)
    hs = [Harness("c04_pid", "e2", unwind=9, skeletons=sks,
                  clause="every history of %d events from {present, absent, error}: after EVERY update return value, category, timestamp and value == textbook PID" % K),
          Harness("c04_kvalues", "e2", clause="PIDKValues::evaluate and PositionDerivativeDependentPIDKValues")]
    # (R) over the reals: the spec for three consecutive samples is homogeneous of degree 1 in (setpoint, samples)
    # and depends on the timestamps only through differences (shift invariance is syntactic: only t - t_prev occurs).
    def pid3(sp, x0, x1, x2, d1, d2, kp, ki, kd):
        e0, e1, e2 = sp - x0, sp - x1, sp - x2
        i1 = d1 * (e0 + e1) / 2.0
        i2 = i1 + d2 * (e1 + e2) / 2.0
        return kp * e2 + ki * i2 + kd * ((e2 - e1) / d2)
    names = ["sp", "x0", "x1", "x2", "d1", "d2", "kp", "ki", "kd", "c"]
    v = {n: V(n) for n in names}
    base = pid3(v["sp"], v["x0"], v["x1"], v["x2"], v["d1"], v["d2"], v["kp"], v["ki"], v["kd"])
    scaled = pid3(v["c"] * v["sp"], v["c"] * v["x0"], v["c"] * v["x1"], v["c"] * v["x2"], v["d1"], v["d2"], v["kp"], v["ki"], v["kd"])
    lem = [lemma("C04.R.homogeneous_degree_1", set(names), set(), ["(not (= d2 0.0))"], "(= %s (* c %s))" % (scaled.real(), base.real()),
                 note="over the reals; exact power-of-two scaling in f32 additionally needs absence of overflow/underflow (outside the claim)")]
    return {
        "crates": [{"rust": RUST, "harnesses": hs}],
        "lemmas": lem,
        "functions": ["PIDControllerStream::{new, update, get}", "PIDKValues::{new, evaluate}", "PositionDerivativeDependentPIDKValues::{new, get_k_values, evaluate}"],
        "bounds": {"history length": K, "event kinds": "all 3^%d sequences of present/absent/error (exhaustive)" % K,
                   "values": "gains, setpoint, samples: all f32 bit patterns; timestamps |t| < 2^60, NOT required increasing (dt = 0 and dt < 0 covered bit-exactly)"},
        "skeleton_space": {"histories": len(sks)},
        "assumptions": ["spec mirror written in the textbook's operator order (kp*e + ki*I + kd*D, trapezoid dt*(e_prev+e)/2, backward difference (e-e_prev)/dt)",
                        "shift invariance: the spec reads timestamps only through differences t - t_prev (syntactic)"],
        "not_decided": ["histories longer than %d events" % K, "magnitude of f32 rounding relative to real arithmetic; exactness of power-of-two scaling in f32 (overflow/underflow)",
                        "agreement with the stream composition of examples/pid.rs (symex of the Rc<RefCell<dyn>> graph exceeds the cap, cf. PIDWrapper in C16/C20)"],
    }
