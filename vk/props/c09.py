"""C09 Terminal links always form a symmetric matching; connect/disconnect never panic."""
import itertools

from ..core import Harness


def matchings(n):
    """All matchings on n terminals as partner arrays (partner[i] == n means unlinked)."""
    out = []

    def rec(i, part):
        if i == n:
            out.append(tuple(part))
            return
        if part[i] != n:
            rec(i + 1, part)
            return
        rec(i + 1, part)  # i stays single
        for j in range(i + 1, n):
            if part[j] == n:
                part[i], part[j] = j, i
                rec(i + 1, part)
                part[i], part[j] = n, n
    rec(0, [n] * n)
    return out


def ops(n):
    o = [(0, i, j) for i in range(n) for j in range(n) if i != j]
    o += [(1, i, 0) for i in range(n)]
    return o


def harness_src(n, nops):
    terms = "\n".join("        let t%d = Terminal::<E>::new();" % i for i in range(n))
    arr = ", ".join("&t%d" % i for i in range(n))
    return TEMPLATE.replace("@N@", str(n)).replace("@TERMS@", terms).replace("@ARR@", arr).replace("@NOPS@", str(nops)).replace("@UNW@", str(max(n, nops) + 3))


TEMPLATE = r'''
    // @N@ terminals: initial matching and @NOPS@ operation(s) come from the job's concrete skeleton. connect/disconnect
    // never look at the data, so the terminals carry concrete, pairwise distinguishable states (position 2^i) and
    // commands (value i, strictly increasing times): after the operations every terminal's three reads must be those
    // of the reference matching, which identifies its partner, and nothing may panic. The read formulas themselves
    // are decided for all values and presence patterns in c09_pair_reads.
    #[kani::proof]
    #[kani::unwind(@UNW@)]
    fn c09_n@N@_ops@NOPS@() {
        const N: usize = @N@;
@TERMS@
        let ts: [&RefCell<Terminal<E>>; N] = [@ARR@];
        let mut st: [Datum<State>; N] = [Datum::new(Time(0), State::new_raw(0.0, 0.0, 0.0)); N];
        let mut cm: [Datum<Command>; N] = [Datum::new(Time(0), Command::Position(0.0)); N];
        let mut i = 0;
        while i < N {
            st[i] = Datum::new(Time(100 + 7 * i as i64), State::new_raw((1u32 << i) as f32, 0.5 * i as f32, -(i as f32)));
            cm[i] = Datum::new(Time(1000 - 3 * i as i64), Command::new(kind_of(i as u32), 10.0 + i as f32));
            ts[i].borrow_mut().set(st[i]).unwrap();
            ts[i].borrow_mut().set(cm[i]).unwrap();
            i += 1;
        }
        // build the initial matching with connect() and mirror it in the reference partner array
        let mut partner: [usize; N] = [N; N];
        let mut i = 0;
        while i < N {
            let p = sk(i) as usize;
            if p < N && p > i { connect(ts[i], ts[p]); partner[i] = p; partner[p] = i; }
            i += 1;
        }
        let mut k = 0;
        while k < @NOPS@ {
            let (kind, a, b) = (sk(N + 3 * k), sk(N + 3 * k + 1) as usize, sk(N + 3 * k + 2) as usize);
            if kind == 0 {
                connect(ts[a], ts[b]);
                // reference rule: unlink whatever either was linked to (including each other), then link a-b
                if partner[a] < N { partner[partner[a]] = N; partner[a] = N; }
                if partner[b] < N { partner[partner[b]] = N; partner[b] = N; }
                partner[a] = b; partner[b] = a;
            } else {
                ts[a].borrow_mut().disconnect();
                if partner[a] < N { partner[partner[a]] = N; partner[a] = N; }
            }
            k += 1;
        }
        let mut i = 0;
        while i < N {
            let p = partner[i];
            let gs: Output<State, E> = ts[i].borrow().get();
            let gc: Output<Command, E> = ts[i].borrow().get();
            // state read: mean of own and partner (f32 + is commutative bit-for-bit, either operand order accepted)
            let want_t = if p < N { max_t(st[i].time.0, st[p].time.0) } else { st[i].time.0 };
            let (w1, w2) = if p < N { ((st[i].value + st[p].value) / 2.0, (st[p].value + st[i].value) / 2.0) } else { (st[i].value, st[i].value) };
            let s_ok = match gs { Ok(Some(d)) => d.time.0 == want_t && (same_state(d.value, w1) || same_state(d.value, w2)), _ => false };
            vk_assert!(s_ok, "C09.state_read_is_mean_of_own_and_partner");
            // command read: the newer of the two (either on a tie)
            let c_ok = match gc {
                Ok(Some(d)) => {
                    let own = d.time == cm[i].time && same_cmd(d.value, cm[i].value);
                    let oth = p < N && d.time == cm[p].time && same_cmd(d.value, cm[p].value);
                    let newest = if p < N { max_t(cm[i].time.0, cm[p].time.0) } else { cm[i].time.0 };
                    (own || oth) && d.time.0 == newest
                }
                _ => false,
            };
            vk_assert!(c_ok, "C09.command_read_is_newer_of_own_and_partner");
            i += 1;
        }
        vk_end!();
    }
'''

READS = r'''
    // one pair: every presence pattern of own/partner state and command (skeleton bits), linked or not
    #[kani::proof]
    fn c09_pair_reads() {
        let t0 = Terminal::<E>::new();
        let t1 = Terminal::<E>::new();
        let linked = sk(0) == 1;
        let (hs0, hs1, hc0, hc1) = (sk(1) == 1, sk(2) == 1, sk(3) == 1, sk(4) == 1);
        let s0 = Datum::new(Time(kani::any()), State::new_raw(sym_f32(), sym_f32(), sym_f32()));
        let s1 = Datum::new(Time(kani::any()), State::new_raw(sym_f32(), sym_f32(), sym_f32()));
        let c0 = Datum::new(Time(kani::any()), Command::new(sym_kind(), sym_f32()));
        let c1 = Datum::new(Time(kani::any()), Command::new(sym_kind(), sym_f32()));
        if hs0 { t0.borrow_mut().set(s0).unwrap(); }
        if hs1 { t1.borrow_mut().set(s1).unwrap(); }
        if hc0 { t0.borrow_mut().set(c0).unwrap(); }
        if hc1 { t1.borrow_mut().set(c1).unwrap(); }
        if linked { connect(&t0, &t1); }
        let gs: Output<State, E> = t0.borrow().get();
        let gc: Output<Command, E> = t0.borrow().get();
        let gd: Output<TerminalData, E> = t0.borrow().get();
        let own_s = if hs0 { Some(s0) } else { None };
        let oth_s = if linked && hs1 { Some(s1) } else { None };
        let s_ok = match (own_s, oth_s) {
            (None, None) => gs == Ok(None),
            (Some(a), None) | (None, Some(a)) => match gs { Ok(Some(d)) => d.time == a.time && same_state(d.value, a.value), _ => false },
            (Some(a), Some(b)) => match gs { Ok(Some(d)) => d.time.0 == max_t(a.time.0, b.time.0)
                && (same_state(d.value, (a.value + b.value) / 2.0) || same_state(d.value, (b.value + a.value) / 2.0)), _ => false },
        };
        vk_assert!(s_ok, "C09.pair.state_read_mean_or_whichever_exists");
        let own_c = if hc0 { Some(c0) } else { None };
        let oth_c = if linked && hc1 { Some(c1) } else { None };
        let is = |d: Datum<Command>, x: Datum<Command>| d.time == x.time && same_cmd(d.value, x.value);
        let c_ok = match (own_c, oth_c) {
            (None, None) => gc == Ok(None),
            (Some(a), None) | (None, Some(a)) => match gc { Ok(Some(d)) => is(d, a), _ => false },
            (Some(a), Some(b)) => match gc { Ok(Some(d)) => (is(d, a) || is(d, b)) && d.time.0 == max_t(a.time.0, b.time.0), _ => false },
        };
        vk_assert!(c_ok, "C09.pair.command_read_newer_or_whichever_exists");
        let d_ok = match (gs, gc) {
            (Ok(None), Ok(None)) => gd == Ok(None),
            (Ok(s), Ok(c)) => match gd {
                Ok(Some(d)) => {
                    let t = match (s, c) { (Some(s), _) => s.time, (None, Some(c)) => c.time, _ => Time(0) };
                    d.time == t && d.value.time == t
                        && match (d.value.state, s) { (Some(x), Some(s)) => same_state(x, s.value), (None, None) => true, _ => false }
                        && match (d.value.command, c) { (Some(x), Some(c)) => same_cmd(x, c.value), (None, None) => true, _ => false }
                }
                _ => false,
            },
            _ => false,
        };
        vk_assert!(d_ok, "C09.pair.combined_read");
        vk_end!();
    }
'''


def skeletons(n, nops):
    sks = []
    for m in matchings(n):
        for seq in itertools.product(ops(n), repeat=nops):
            sk = list(m)
            for o in seq:
                sk += list(o)
            sks.append(tuple(sk))
    return sks


def spec(ctx):
    plan = [(2, 2), (3, 1), (4, 1)] if ctx.quick else [(2, 3), (3, 2), (4, 1), (5, 1)]
    rust = ["#[cfg(kani)]", "mod c09 {", "    use super::*;"]
    hs = []
    space = {}
    for n, k in plan:
        rust.append(harness_src(n, k))
        sks = skeletons(n, k)
        space["n=%d, %d op(s)" % (n, k)] = {"matchings": len(matchings(n)), "operations": len(ops(n)), "jobs": len(sks)}
        hs.append(Harness("c09_n%d_ops%d" % (n, k), "e2", unwind=max(n, k) + 3, skeletons=sks,
                          clause="%d terminals: every reachable matching x every sequence of %d connect/disconnect operation(s)" % (n, k)))
    rust.append(READS)
    rust.append("}")
    hs.append(Harness("c09_pair_reads", "e2", timeout=300, skeletons=list(itertools.product([0, 1], repeat=5)),
                      clause="state / command / combined reads for every presence pattern of own and partner data, linked or not"))
    return {
        "crates": [{"rust": "\n".join(rust), "harnesses": hs}],
        "functions": ["connect", "Terminal::disconnect", "Terminal::{new, set}", "Getter<State>/Getter<Command>/Getter<TerminalData> for Terminal"],
        "bounds": {"terminals": [n for n, _ in plan], "operation sequences": "from EVERY matching (built with connect), sequences of the stated length; by induction "
                   "on the matching (links are fully observable through the reads for all symbolic data) this covers histories of any length for these sizes",
                   "values": "link structure: concrete pairwise-distinguishable data (connect/disconnect are data-independent); "
                   "read formulas: all f32 states/commands, all i64 timestamps, all 16 presence patterns, linked or not"},
        "skeleton_space": space,
        "assumptions": ["IEEE f32 addition is commutative bit-for-bit (either operand order accepted for the mean); hence linked terminals read equal states",
                        "connect(a, a) on one terminal is outside the property (distinct a, b)"],
        "not_decided": ["more terminals than listed; which command wins an exact timestamp tie (not part of the property)"],
    }
