"""C18 Time and integer quantities: exact integer arithmetic, faithful float conversion."""
from .. import core, gen_dim
from ..core import Harness

RUST_TAIL = r'''
    // conversions: Time/DimensionlessInteger <-> i64 identity, -> Quantity, <- Quantity
    #[kani::proof]
    fn c18_conversions() {
        let t: i64 = kani::any();
        vk_assert!(i64::from(Time::from(t)) == t && Time::new(t).0 == t && Time(t) == Time::from(t), "C18.time_i64_identity");
        vk_assert!(i64::from(DimensionlessInteger::from(t)) == t && DimensionlessInteger::new(t).0 == t, "C18.dimensionless_i64_identity");
        let q = Quantity::from(Time(t));
        vk_assert!(same(q.value, t as f32 / 1_000_000_000.0), "C18.time_to_quantity_value");
        vk_assert!(q.unit == Unit::new(0, 1), "C18.time_to_quantity_unit");
        let d = Quantity::from(DimensionlessInteger(t));
        vk_assert!(same(d.value, t as f32) && d.unit == Unit::new(0, 0), "C18.dimensionless_to_quantity");
        let (m, s) = (kani::any::<i8>(), kani::any::<i8>());
        let v = sym_f32();
        let back = Time::try_from(Quantity::new(v, Unit::new(m, s)));
        if m == 0 && s == 1 {
            vk_assert!(back == Ok(Time((v * 1_000_000_000.0) as i64)), "C18.quantity_to_time_value");
        } else {
            vk_assert!(back.is_err(), "C18.quantity_to_time_rejects_other_units");
        }
        let backd = DimensionlessInteger::try_from(Quantity::new(v, Unit::new(m, s)));
        if m == 0 && s == 0 {
            vk_assert!(backd == Ok(DimensionlessInteger(v as i64)), "C18.quantity_to_dimensionless_value");
        } else {
            vk_assert!(backd.is_err(), "C18.quantity_to_dimensionless_rejects_other_units");
        }
        vk_end!();
    }
    // comparison / default of the integer newtypes follow i64
    #[kani::proof]
    fn c18_int_order() {
        let (a, b): (i64, i64) = (kani::any(), kani::any());
        vk_assert!((Time(a) < Time(b)) == (a < b) && (Time(a) == Time(b)) == (a == b) && (Time(a) >= Time(b)) == (a >= b), "C18.time_order");
        vk_assert!((DimensionlessInteger(a) < DimensionlessInteger(b)) == (a < b) && (DimensionlessInteger(a) == DimensionlessInteger(b)) == (a == b), "C18.dimensionless_order");
        vk_assert!(Time::default().0 == 0 && DimensionlessInteger::default().0 == 0, "C18.default_zero");
        vk_end!();
    }
    // bounded windows around 2^k ns: monotone conversion, 2-ulp accuracy versus f64, round trip bound
    #[kani::proof]
    fn c18_window() {
        let k = sk(0);
        let off: i16 = kani::any();
        kani::assume(off >= -1024 && off <= 1024);
        let neg: bool = kani::any();
        let base = (1i64 << k) + off as i64;
        let a = if neg { -base } else { base };
        let qa = Quantity::from(Time(a)).value;
        let qb = Quantity::from(Time(a + 1)).value;
        vk_assert!(qa <= qb, "C18.window.monotone_adjacent");
        // within two f32 ulps of the real quotient (f64 quotient is correctly rounded to 53 bits)
        let exact = a as f64 / 1.0e9;
        let err = (qa as f64 - exact).abs();
        let ulp = (f32::from_bits(qa.abs().to_bits() + 1) - qa.abs()) as f64;
        vk_assert!(err <= 2.0 * ulp, "C18.window.two_ulps");
        let back = Time::try_from(Quantity::new(qa, SECOND)).unwrap().0;
        let diff = (back as i128 - a as i128).abs();
        vk_assert!(diff <= ((a as i128).abs() >> 22) + 1, "C18.window.roundtrip_bound");
        vk_end!();
    }
}
'''


def spec(ctx):
    impls, groups, panic, unclassified = gen_dim.build(core.REPO)
    int_arms = [gen_dim.gen_arm(im, "int") for im in groups["int"]]
    conv_arms = [gen_dim.gen_arm(im, "conv") for im in groups["conv"]]
    rust = "\n".join(["#[cfg(kani)]", "mod c18 {", "    use super::*;",
                      gen_dim.harness_fn("c18_int_ops", int_arms),
                      gen_dim.harness_fn("c18_mixed_ops", conv_arms)]) + RUST_TAIL
    hs = [
        Harness("c18_int_ops", "e2", tolerant=False, skeletons=[(i,) for i in range(len(int_arms))],
                allow_fail=r"(attempt to \w+ with overflow|attempt to divide by zero|attempt to divide with overflow) @c18::c18_int_ops", clause="Time / DimensionlessInteger integer operators == i64 operators (no overflow, non-zero divisor)"),
        Harness("c18_mixed_ops", "e2", tolerant=False, skeletons=[(i,) for i in range(len(conv_arms))], clause="every operator yielding a Quantity == Quantity operator after converting operands"),
        Harness("c18_conversions", "e2", clause="i64 identity; Time/DimensionlessInteger <-> Quantity formulas; other units rejected (all i8^2)"),
        Harness("c18_int_order", "e1", clause="ordering / equality / default of the integer newtypes"),
    ]
    ks = list(range(23, 41)) if not ctx.quick else [23, 30, 33, 40]
    hs.append(Harness("c18_window", "e1", skeletons=[(k,) for k in ks], timeout=600 if not ctx.quick else 120,
                      clause="windows +-1024 ns around +-2^k ns: adjacent monotonicity, two-ulp accuracy, round-trip bound"))
    return {
        "crates": [{"rust": rust, "harnesses": hs}],
        "problems": list(unclassified),
        "functions": ["integer operator impls of Time / DimensionlessInteger (%d parsed)" % len(groups["int"]),
                      "mixed operator impls yielding Quantity (%d parsed)" % len(groups["conv"]),
                      "Quantity::from(Time|DimensionlessInteger)", "Time::try_from(Quantity)", "DimensionlessInteger::try_from(Quantity)", "From<i64>/Into<i64>"],
        "bounds": {"i64": "all values; integer operators under no-overflow / non-zero-divisor assumption (rrtk panics there in dev builds)",
                   "f32": "all bit patterns", "unit exponents": "all i8^2 for conversions, |e|<=60 for operators",
                   "ulp/monotone/round-trip": "only inside windows +-1024 ns around +-2^k ns, k in %s" % ks},
        "assumptions": ["Kani models the dev profile", "Rust `as` float->int cast semantics as modelled by Kani (saturating, NaN -> 0)"],
        "not_decided": ["two-ulp accuracy, monotonicity and the |t|*2^-22 + 1 ns round-trip bound OUTSIDE the stated windows "
                        "(they follow from IEEE correct rounding of the formula proved bit-exactly for all i64, but the solver cannot establish them globally)"],
    }
