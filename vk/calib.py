"""Calibration suite: micro-harnesses with KNOWN verdicts, pushed through both engines. Guards against a wrong
tool chain (CBMC SMT2 overflow_result mis-encoding and its repair, floats in structs/enums, unwinding assertions,
vacuity witness, must-panic idiom, skeleton hook). Any mismatch => every check exits 2."""
import hashlib
import json
import os
import subprocess
import sys
import time

from . import core, driver

RUST = r'''
#[cfg(kani)]
mod cal {
    use super::*;
    fn small8() -> (i8, i8) { let a: i8 = kani::any(); let b: i8 = kani::any(); (a, b) }
    // --- Rust checked arithmetic on both sides of the overflow boundary (validates the SMT repair)
    #[kani::proof] fn cal_i8_add_in_range() { let (a, b) = small8(); kani::assume(a >= -60 && a <= 60 && b >= -60 && b <= 60); let c = a + b; vk_assert!(c as i32 == a as i32 + b as i32, "CAL.i8_add_value"); vk_end!(); }
    #[kani::proof] fn cal_i8_add_overflows() { let (a, b) = small8(); let c = a + b; vk_assert!(c as i32 == a as i32 + b as i32, "CAL.i8_add_value"); vk_end!(); }
    #[kani::proof] fn cal_i8_sub_boundary_ok() { let (a, b) = small8(); kani::assume(a as i32 - b as i32 >= -128 && a as i32 - b as i32 <= 127); let c = a - b; vk_assert!(c as i32 == a as i32 - b as i32, "CAL.i8_sub_value"); vk_end!(); }
    #[kani::proof] fn cal_i8_sub_boundary_bad() { let (a, b) = small8(); kani::assume(a as i32 - b as i32 >= -129 && a as i32 - b as i32 <= 127); let c = a - b; vk_end!(); }
    #[kani::proof] fn cal_i64_sub_in_range() { let a = sym_time(); let b = sym_time(); let c = a - b; vk_assert!(c as i128 == a as i128 - b as i128, "CAL.i64_sub_value"); vk_end!(); }
    #[kani::proof] fn cal_i64_sub_overflows() { let a: i64 = kani::any(); let b: i64 = kani::any(); let c = a - b; vk_end!(); }
    #[kani::proof] fn cal_i64_mul_in_range() { let a: i64 = kani::any(); let b: i64 = kani::any(); kani::assume(a > -(1 << 10) && a < (1 << 10) && b > -(1 << 10) && b < (1 << 10)); let c = a * b; vk_assert!((c < 0) == ((a < 0) != (b < 0) && a != 0 && b != 0), "CAL.i64_mul_sign"); vk_end!(); }
    #[kani::proof] fn cal_i64_mul_overflows() { let a: i64 = kani::any(); let b: i64 = kani::any(); kani::assume(a > -(1 << 33) && a < (1 << 33) && b > -(1 << 33) && b < (1 << 33)); let c = a * b; vk_end!(); }
    // a negative result must stay reachable after a checked op (the unrepaired encoding assumes it away)
    #[kani::proof] fn cal_negative_result_reachable() { let a = sym_time(); let b = sym_time(); let c = a - b; vk_assert!(c != -5, "CAL.must_fail.negative_reachable"); vk_end!(); }
    #[kani::proof] fn cal_i8_negative_result_reachable() { let (a, b) = small8(); kani::assume(a >= -60 && a <= 60 && b >= -60 && b <= 60); let c = a + b; vk_assert!(c != -7, "CAL.must_fail.negative_reachable8"); vk_end!(); }
    // --- floats inside structs / enums, NaN-aware equality, rrtk operators
    #[kani::proof] fn cal_float_struct() { let (a, b) = (sym_f32(), sym_f32()); let q = Quantity::new(a, MILLIMETER) / Quantity::new(b, SECOND); vk_assert!(same(q.value, a / b), "CAL.float_struct_div"); let c = Command::new(sym_kind(), a) * b; vk_assert!(same(f32::from(c), a * b), "CAL.float_enum_mul"); vk_end!(); }
    #[kani::proof] fn cal_float_wrong_mirror_structural() { let (a, b) = (sym_f32(), sym_f32()); let q = Quantity::new(a, MILLIMETER) - Quantity::new(b, MILLIMETER); vk_assert!(same(q.value, b - a), "CAL.must_fail.swapped_operands"); vk_end!(); }
    #[kani::proof] fn cal_time_conv() { let t: i64 = kani::any(); let q = Quantity::from(Time(t)); vk_assert!(same(q.value, secs(t)) && q.unit == SECOND, "CAL.time_to_quantity"); vk_end!(); }
    // --- unwinding: a loop that needs more iterations than the bound must be reported, not truncated
    #[kani::proof] #[kani::unwind(3)] fn cal_unwind_too_small() { let n: u8 = kani::any(); kani::assume(n <= 5); let mut s = 0u32; for i in 0..n { s += i as u32; } vk_assert!(s <= 10, "CAL.loop_sum"); vk_end!(); }
    #[kani::proof] #[kani::unwind(7)] fn cal_unwind_enough() { let n: u8 = kani::any(); kani::assume(n <= 5); let mut s = 0u32; for i in 0..n { s += i as u32; } vk_assert!(s <= 10, "CAL.loop_sum"); vk_end!(); }
    // --- vacuity: an unsatisfiable assumption must be caught by the witness
    #[kani::proof] fn cal_vacuous() { let a: u8 = kani::any(); kani::assume(a > 3 && a < 2); vk_assert!(false, "CAL.vacuous"); vk_end!(); }
    // --- must-panic idiom: marker after a panicking operation is unreachable
    #[kani::proof] fn cal_must_panic_ok() { let (m, s) = small8(); kani::assume(!(m == 1 && s == 0)); kani::cover!(true, "vk_end"); let _ = Quantity::new(1.0, MILLIMETER) + Quantity::new(2.0, Unit::new(m, s)); vk_assert!(false, "CAL.marker_unreachable"); }
    #[kani::proof] fn cal_must_panic_missing() { let (m, s) = small8(); kani::cover!(true, "vk_end"); let _ = Quantity::new(1.0, MILLIMETER) + Quantity::new(2.0, Unit::new(m, s)); vk_assert!(false, "CAL.must_fail.marker_reachable"); }
    // --- never-written MaybeUninit memory must read as an arbitrary value (C16 relies on it)
    #[kani::proof] fn cal_uninit_is_nondet() { let m = core::mem::MaybeUninit::<u32>::uninit(); let v = unsafe { m.assume_init() }; vk_assert!(v == 0, "CAL.must_fail.uninit_is_nondet_a"); vk_end!(); }
    #[kani::proof] fn cal_uninit_is_nondet_array() { let mut a: [core::mem::MaybeUninit<u32>; 3] = [core::mem::MaybeUninit::uninit(); 3]; a[0].write(5); let v = unsafe { a[1].assume_init() }; vk_assert!(v != 77, "CAL.must_fail.uninit_is_nondet_b"); vk_end!(); }
    // --- skeleton hook: the linked C stub decides the branch
    #[kani::proof] fn cal_skeleton() { let (a, b) = (sym_f32(), sym_f32()); let r = match sk(0) { 0 => a + b, 1 => a / b, _ => a }; let q = match sk(0) { 0 => Quantity::new(a, SECOND) + Quantity::new(b, SECOND), 1 => Quantity::new(a, SECOND) / Quantity::new(b, SECOND), _ => Quantity::new(a, SECOND) }; vk_assert!(same(q.value, r), "CAL.skeleton_value"); vk_assert!(sk(1) == 7 && sk(2) == 0xFFFF, "CAL.skeleton_table"); vk_end!(); }
}
'''

PANIC_DIM = r"assertion failed: self\.eq_assume_true\(rhs\)"
OVF = r"attempt to (add|subtract|multiply|negate) with overflow"

# name -> (expected status, kwargs)
CASES = {
    "cal_i8_add_in_range": ("proved", {}),
    "cal_i8_add_overflows": ("failed", {}),
    "cal_i8_sub_boundary_ok": ("proved", {}),
    "cal_i8_sub_boundary_bad": ("failed", {}),
    "cal_i64_sub_in_range": ("proved", {}),
    "cal_i64_sub_overflows": ("failed", {}),
    "cal_i64_mul_in_range": ("proved", {}),
    "cal_i64_mul_overflows": ("failed", {}),
    "cal_negative_result_reachable": ("failed", {}),
    "cal_i8_negative_result_reachable": ("failed", {}),
    "cal_float_struct": ("proved", {"engines": ("e2",)}),
    "cal_float_wrong_mirror_structural": ("failed", {"engines": ("e2",)}),
    "cal_time_conv": ("proved", {"engines": ("e2",)}),
    "cal_unwind_too_small": ("failed", {"unwind": 3}),
    "cal_unwind_enough": ("proved", {"unwind": 7}),
    "cal_vacuous": ("error", {}),
    "cal_must_panic_ok": ("proved", {"allow_fail": PANIC_DIM}),
    "cal_must_panic_missing": ("failed", {"allow_fail": PANIC_DIM}),
    "cal_uninit_is_nondet": ("failed", {}),
    "cal_uninit_is_nondet_array": ("failed", {}),
    "cal_skeleton": ("proved", {"skeletons": [(0, 7), (1, 7), (2, 7)], "engines": ("e2",)}),
}


def tool_stamp():
    h = hashlib.sha256()
    for cmd in (["cbmc", "--version"], ["cargo", "kani", "--version"], ["cvc5", "--version"], ["z3-new", "--version"]):
        try:
            h.update(subprocess.run(cmd, capture_output=True, text=True, timeout=60).stdout.encode())
        except Exception as e:  # noqa
            h.update(repr(e).encode())
    for f in ("core.py", "repair_overflow.py", "calib.py"):
        h.update(open(os.path.join(core.ROOT, "vk", f), "rb").read())
    h.update(open(os.path.join(core.ROOT, "tpl", "common.rs"), "rb").read())
    return h.hexdigest()


def stamp_path():
    return os.path.join(core.WORK, "calib.ok")


def ok_cached():
    try:
        return open(stamp_path()).read().strip() == tool_stamp()
    except OSError:
        return False


def main(force=False):
    if not force and ok_cached():
        return 0
    t0 = time.time()
    crate = core.Crate("CAL")
    crate.write(driver.prelude(driver.SK_FFI) + RUST)
    crate.codegen()
    hs, expect = [], []
    for name, (exp, kw) in CASES.items():
        kw = dict(kw)
        engines = kw.pop("engines", ("e1", "e2"))
        for e in engines:
            h = core.Harness(name, e, **kw)
            hs.append(h)
            n = len(h.skeletons) if h.skeletons else 1
            expect += [exp] * n
    res = core.run_jobs(crate, hs, 120, progress=False)
    bad = []
    for r, exp in zip(res, expect):
        if r.status != exp:
            bad.append("%s/%s: expected %s got %s (%s) %s" % (r.key(), r.harness.engine, exp, r.status, r.detail[:200], r.failed[:2]))
    # the unrepaired encoding must be visibly wrong, otherwise the repair is dead code and should be dropped
    sites = sum(r.repair_sites for r in res)
    for b in bad:
        sys.stderr.write("CALIBRATION MISMATCH " + b + "\n")
    sys.stderr.write("calibration: %d jobs, %d mismatches, %d overflow_result sites repaired, %.0fs\n" % (len(res), len(bad), sites, time.time() - t0))
    if bad:
        try:
            os.remove(stamp_path())
        except OSError:
            pass
        return 2
    os.makedirs(core.WORK, exist_ok=True)
    with open(stamp_path(), "w") as f:
        f.write(tool_stamp())
    return 0


if __name__ == "__main__":
    sys.exit(main(force=True))
