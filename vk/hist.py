"""Shared pieces for the history-driven (stateful stream) checks C04, C05, C10, C11, C12."""
import itertools

# Rust helpers: events whose KIND comes from the job's concrete skeleton, payloads symbolic.
RUST = r'''
    pub const KMAX: usize = 6;
    /// event kinds: 0 present, 1 absent, 2 error
    pub fn ev_f32(kind: u32) -> Ev<f32> {
        match kind { 0 => Ev::Some(sym_time(), sym_f32()), 1 => Ev::None, _ => Ev::Err(kani::any()) }
    }
    pub fn ev_q(kind: u32, m: i8, s: i8) -> Ev<Quantity> {
        match kind { 0 => Ev::Some(sym_time(), Quantity::new(sym_f32(), Unit::new(m, s))), 1 => Ev::None, _ => Ev::Err(kani::any()) }
    }
    pub fn ev_state(kind: u32) -> Ev<State> {
        match kind { 0 => Ev::Some(sym_time(), State::new_raw(sym_f32(), sym_f32(), sym_f32())), 1 => Ev::None, _ => Ev::Err(kani::any()) }
    }
    pub fn upd_ok(res: NothingOrError<E>, ev_is_err: Option<E>) -> bool {
        match ev_is_err { Some(e) => res == Err(Error::Other(e)), None => res == Ok(()) }
    }
    pub fn err_of<T: Copy>(e: Ev<T>) -> Option<E> { match e { Ev::Err(x) => Some(x), _ => None } }
'''


def histories(k, kinds=(0, 1, 2)):
    """All event-kind sequences of exactly length k, encoded as skeleton (k, kinds...)."""
    return [(k,) + seq for seq in itertools.product(kinds, repeat=k)]


def histories_upto(kmax, kinds=(0, 1, 2)):
    out = []
    for k in range(1, kmax + 1):
        out += histories(k, kinds)
    return out
