"""Generates the operator obligations for src/dimensions.rs from the impl headers found there (C01, C18).

Every `impl <Op>[<Rhs>] for <Lhs>` with Op an arithmetic operator trait and Lhs/Rhs among Unit, Quantity, Time,
DimensionlessInteger is classified from the code itself:
  * int   - both operands integer-typed and the declared Output (or the assigned-to type) is integer-typed:
            result equals the i64 operator (no overflow / zero divisor assumed: rrtk panics there by design);
  * conv  - yields a Quantity: result bit-identical (value and unit) to the Quantity operator applied after converting
            the non-Quantity operands with Quantity::from;
  * base  - Quantity op Quantity: value = f32 operator on the raw values, unit = exponents added / subtracted / kept;
  * unit  - Unit op Unit: same unit as the Quantity operator on quantities carrying those units.
An impl that fits none of these is reported as unclassified (an error, never silently skipped)."""
import os
import re

OPS = {"Add": "+", "Sub": "-", "Mul": "*", "Div": "/"}
ASSIGN = {"AddAssign": "+", "SubAssign": "-", "MulAssign": "*", "DivAssign": "/"}
TYPES = ("Unit", "Quantity", "Time", "DimensionlessInteger")
INT = ("Time", "DimensionlessInteger")
SHORT = {"Unit": "U", "Quantity": "Q", "Time": "T", "DimensionlessInteger": "D"}

_IMPL = re.compile(r"^impl (\w+)(?:<(\w+)>)? for (\w+) \{\n((?:.*\n)*?)\}", re.M)


def parse_impls(repo):
    src = open(os.path.join(repo, "src", "dimensions.rs")).read()
    out = []
    for m in _IMPL.finditer(src):
        tr, rhs, lhs, body = m.group(1), m.group(2), m.group(3), m.group(4)
        if tr not in OPS and tr not in ASSIGN and tr != "Neg":
            continue
        if lhs not in TYPES:
            continue
        rhs = rhs or lhs
        if rhs == "Self":
            rhs = lhs
        o = re.search(r"type Output = (\w+);", body)
        output = o.group(1) if o else None
        if output == "Self":
            output = lhs
        out.append({"trait": tr, "lhs": lhs, "rhs": rhs, "output": output, "line": src[:m.start()].count("\n") + 1})
    return out


def classify(im):
    tr, l, r, o = im["trait"], im["lhs"], im["rhs"], im["output"]
    if tr == "Neg":
        return {"Unit": "unit", "Quantity": "base", "Time": "int", "DimensionlessInteger": "int"}.get(l)
    assign = tr in ASSIGN
    res = l if assign else o
    if l == "Unit" and r == "Unit" and res == "Unit":
        return "unit"
    if l == "Quantity" and r == "Quantity" and res == "Quantity":
        return "base"
    if l in INT and r in INT and res in INT:
        return "int"
    if res == "Quantity" and l in TYPES[1:] and r in TYPES[1:]:
        return "conv"
    return None


def _mk(ty, var):
    """Rust statements creating symbolic operand `var` of type ty (+ its unit exponents as var_m, var_s)."""
    if ty == "Quantity":
        return ("let ({v}_m, {v}_s) = sym_unit60(); let {v}_x = sym_f32(); let {v} = Quantity::new({v}_x, Unit::new({v}_m, {v}_s));"
                .format(v=var))
    if ty == "Time":
        return "let {v}_i = sym_i64(); let {v} = Time({v}_i); let ({v}_m, {v}_s) = (0i8, 1i8);".format(v=var)
    if ty == "DimensionlessInteger":
        return "let {v}_i = sym_i64(); let {v} = DimensionlessInteger({v}_i); let ({v}_m, {v}_s) = (0i8, 0i8);".format(v=var)
    if ty == "Unit":
        return "let ({v}_m, {v}_s) = sym_unit60(); let {v} = Unit::new({v}_m, {v}_s);".format(v=var)
    raise ValueError(ty)


def _q(ty, var):
    return var if ty == "Quantity" else "Quantity::from(%s)" % var


def arm_name(im):
    return "%s_%s_%s" % (SHORT[im["lhs"]], im["trait"], SHORT[im["rhs"]])


def gen_arm(im, kind):
    """Rust block (one match arm body) checking one impl. Units of a and b are (a_m,a_s),(b_m,b_s)."""
    tr, l, r = im["trait"], im["lhs"], im["rhs"]
    name = arm_name(im)
    if tr == "Neg":
        if kind == "unit":
            return "%s let g = -a; vk_assert!(g == Unit::new(a_m, a_s), \"dim.%s.unit_kept\");" % (_mk(l, "a"), name)
        if kind == "base":
            return ("%s let g = -a; vk_assert!(same(g.value, -a_x), \"dim.%s.value\"); vk_assert!(g.unit == Unit::new(a_m, a_s), \"dim.%s.unit_kept\");"
                    % (_mk(l, "a"), name, name))
        return ("%s let want = -a_i; let g = -a; vk_assert!(g.0 == want, \"dim.%s.int\");" % (_mk(l, "a"), name))
    assign = tr in ASSIGN
    op = ASSIGN[tr] if assign else OPS[tr]
    pre = _mk(l, "a") + " " + _mk(r, "b")
    addsub = op in "+-"
    if assign:
        got = "let mut g = a; g %s= b;" % op
    else:
        got = "let g = a %s b;" % op
    if kind == "unit":
        if addsub:
            return ("%s kani::assume(a_m == b_m && a_s == b_s); %s vk_assert!(g == Unit::new(a_m, a_s), \"dim.%s.unit_kept\");"
                    " let qq = Quantity::new(1.0, a) %s Quantity::new(2.0, b); vk_assert!(qq.unit == g, \"dim.%s.same_as_quantity\");"
                    % (pre, got, name, op, name))
        sgn = "+" if op == "*" else "-"
        return ("%s %s vk_assert!(g == Unit::new(a_m %s b_m, a_s %s b_s), \"dim.%s.unit_exponents\");"
                " let qq = Quantity::new(1.0, a) %s Quantity::new(2.0, b); vk_assert!(qq.unit == g, \"dim.%s.same_as_quantity\");"
                % (pre, got, sgn, sgn, name, op, name))
    if kind == "base":
        if addsub:
            return ("%s kani::assume(a_m == b_m && a_s == b_s); %s vk_assert!(same(g.value, a_x %s b_x), \"dim.%s.value\");"
                    " vk_assert!(g.unit == Unit::new(a_m, a_s), \"dim.%s.unit_kept\");" % (pre, got, op, name, name))
        sgn = "+" if op == "*" else "-"
        return ("%s %s vk_assert!(same(g.value, a_x %s b_x), \"dim.%s.value\");"
                " vk_assert!(g.unit == Unit::new(a_m %s b_m, a_s %s b_s), \"dim.%s.unit_exponents\");" % (pre, got, op, name, sgn, sgn, name))
    if kind == "int":
        # the harness's own checked i64 operation (allowed to panic: overflow / zero divisor are outside the claim)
        # defines the domain; past it CBMC assumes the operation succeeded, and rrtk's identical checked operation
        # is then matched structurally
        return "%s let want = a_i %s b_i; %s vk_assert!(g.0 == want, \"dim.%s.int\");" % (pre, op, got, name)
    if kind == "conv":
        guard = "kani::assume(a_m == b_m && a_s == b_s);" if addsub else ""
        if op in "+*":
            # f32 + and * are commutative bit-for-bit (NaN-aware); accept either operand order so that the solver can
            # match the implementation's own order structurally
            return ("%s %s %s let w = %s %s %s; let w2 = %s %s %s; vk_assert!(same(g.value, w.value) || same(g.value, w2.value), \"dim.%s.value_as_quantity_op\");"
                    " vk_assert!(g.unit == w.unit, \"dim.%s.unit_as_quantity_op\");"
                    % (pre, guard, got, _q(l, "a"), op, _q(r, "b"), _q(r, "b"), op, _q(l, "a"), name, name))
        return ("%s %s %s let w = %s %s %s; vk_assert!(same(g.value, w.value), \"dim.%s.value_as_quantity_op\");"
                " vk_assert!(g.unit == w.unit, \"dim.%s.unit_as_quantity_op\");"
                % (pre, guard, got, _q(l, "a"), op, _q(r, "b"), name, name))
    raise ValueError(kind)


def gen_panic_arm(im):
    """Add/Sub-like impls: with DIFFERENT units the operation must panic (marker after it unreachable)."""
    tr, l, r = im["trait"], im["lhs"], im["rhs"]
    assign = tr in ASSIGN
    op = ASSIGN[tr] if assign else OPS[tr]
    pre = _mk(l, "a") + " " + _mk(r, "b")
    got = ("let mut g = a; g %s= b;" % op) if assign else ("let g = a %s b;" % op)
    return "%s kani::assume(!(a_m == b_m && a_s == b_s)); kani::cover!(true, \"vk_end\"); %s" % (pre, got)


def harness_fn(name, arms, tail="vk_end!();", panic=False):
    body = ["    #[kani::proof]", "    fn %s() {" % name, "        match sk(0) {"]
    for i, a in enumerate(arms):
        body.append("            %d => { %s }" % (i, a))
    body.append("            _ => { kani::assume(false); }")
    body.append("        }")
    if panic:
        body.append('        vk_assert!(false, "dim.mismatch_must_panic");')
    else:
        body.append("        " + tail)
    body.append("    }")
    return "\n".join(body)


def build(repo):
    impls = parse_impls(repo)
    groups = {"unit": [], "base": [], "int": [], "conv": []}
    unclassified = []
    for im in impls:
        k = classify(im)
        if k is None:
            unclassified.append("%s<%s> for %s (dimensions.rs:%d)" % (im["trait"], im["rhs"], im["lhs"], im["line"]))
        else:
            groups[k].append(im)
    panic = [im for im in impls if (im["trait"] in ("Add", "Sub", "AddAssign", "SubAssign"))
             and classify(im) in ("unit", "base", "conv")]
    return impls, groups, panic, unclassified
