"""Counterexample hunt + native replay (DESIGN.md 2.4 steps 2-3).

A job whose obligations were not proved is re-generated as a hunt crate. For float-bearing (e2) jobs the symbolic draws
come from a dyadic grid + specials and f32 comparisons are made tolerant (relative 1e-5), so the solver has to produce a
counterexample that is NOT a benign rounding difference; e1 jobs are hunted on the full domain with exact comparison.
CBMC (CaDiCaL, --stop-on-fail --trace) produces an assignment; the values of every kani::any() draw are read out of the
trace in call order and written, in Kani's concrete-playback format, into a stand-alone replay crate (concrete skeleton
table instead of the FFI hook). `cargo kani playback` then executes the harness NATIVELY against the real rrtk build;
only a natively failing replay is reported as a VIOLATION."""
import glob
import json
import os
import re
import shutil
import time

from . import core, driver

TOL_SAME = '''pub fn same(a: f32, b: f32) -> bool {
    if a.to_bits() == b.to_bits() || (a.is_nan() && b.is_nan()) || a == b { return true; }
    if a.is_nan() || b.is_nan() || a.is_infinite() || b.is_infinite() { return false; }
    let m = if a.abs() >= b.abs() { a.abs() } else { b.abs() };
    (a - b).abs() <= 1.0e-5 * m
}'''
EXACT_SAME_RE = re.compile(r"pub fn same\(a: f32, b: f32\) -> bool \{\n.*?\n\}", re.S)


def _crate_source(part, sk_impl, grid, tolerant, extra_test=None):
    rust = part["rust"]
    if extra_test:
        k = rust.rstrip().rfind("}")
        rust = rust[:k] + extra_test + "\n}\n"
    lib = driver.prelude(sk_impl, grid=grid) + "\n" + rust
    if tolerant:
        lib, n = EXACT_SAME_RE.subn(lambda m: TOL_SAME, lib, count=1)
        assert n == 1
    return lib


def extract_draws(trace):
    """Values returned by kani::any_raw_* in call order, as little-endian byte lists (Kani's playback format)."""
    vals = []
    for st in trace:
        if st.get("stepType") != "assignment":
            continue
        fn = st.get("sourceLocation", {}).get("function", "")
        if not fn.startswith("kani::any_raw_") or st.get("lhs") != "var_0":
            continue
        v = st.get("value", {})
        b = v.get("binary")
        if b is None:
            continue
        nbytes = max(1, (len(b) + 7) // 8)
        vals.append(list(int(b, 2).to_bytes(nbytes, "little")))
    return vals


def playback_test(harness_fn, vals):
    rows = ",\n            ".join("vec![%s]" % ", ".join(map(str, v)) for v in vals)
    return ('''
    #[test]
    fn kani_concrete_playback_%s() {
        let concrete_vals: Vec<Vec<u8>> = vec![
            %s
        ];
        kani::concrete_playback_run(concrete_vals, %s);
    }''' % (harness_fn, rows, harness_fn))


def hunt(crate, r, ctx):
    part = crate.part
    h = r.harness
    modes = [("grid", True, h.tolerant), ("full", False, False)] if h.engine == "e2" else [("full", False, False)]
    budget = int(os.environ.get("VK_HUNT_BUDGET", "120" if ctx.quick else "600"))
    why = []
    pretty = crate.meta[h.name][3]
    for label, grid, tol in modes:
        hc = core.Crate(ctx.prop_id, "hunt_" + label, features=crate.features, extra_deps=crate.extra_deps, rrtk_dep=crate.rrtk_dep)
        hc.write(_crate_source(part, driver.SK_FFI, grid, tol), part.get("extra_files"))
        jd = os.path.join(hc.dir, "job")
        shutil.rmtree(jd, ignore_errors=True)
        os.makedirs(jd)
        try:
            hc.codegen([pretty], stubbing=part.get("stubbing", False), exact=True)
            goto = core.link_job(hc, h, r.skeleton, jd)
            props = core.list_properties(goto, h)
        except core.BuildError as e:
            why.append("%s hunt build failed: %s" % (label, str(e)[-300:]))
            continue
        query, covers, allowed = core.classify(props, h)
        cmd = ["cbmc"] + core.CBMC_FLAGS + list(h.extra_cbmc) + core.unwind_flags(h) + \
              ["--sat-solver", "cadical", "--stop-on-fail", "--trace", "--json-ui"]
        for p in query:
            cmd += ["--property", p["name"]]
        cmd.append(goto)
        rc, out, secs = core.run(cmd, timeout=budget)
        if rc == -9:
            why.append("%s hunt timed out after %ds" % (label, budget))
            continue
        try:
            data = json.loads(out)
        except ValueError:
            why.append("%s hunt: unparsable cbmc output" % label)
            continue
        hit = None
        for item in data:
            if isinstance(item, dict) and "trace" in item and item.get("status") == "failed":
                hit = item
                break
        if hit is None:
            st = [i.get("cProverStatus") for i in data if isinstance(i, dict) and "cProverStatus" in i]
            why.append("%s hunt: no counterexample (cbmc %s in %.0fs)" % (label, st[0] if st else "?", secs))
            continue
        by_name = {p["name"]: p for p in query}
        failed = [core._pdesc(by_name[hit["property"]]) if hit["property"] in by_name else hit["property"]]
        vals = extract_draws(hit["trace"])
        sk_impl = driver.sk_const(r.skeleton if r.skeleton is not None else ())
        lib = _crate_source(part, sk_impl, grid, tol, extra_test=playback_test(h.name, vals))
        rep_dir = save_replay(ctx.prop_id, r, hc, lib, label, failed, vals)
        ok, rout = native_replay(rep_dir, memcheck=bool(MEMORY_CLASS.search(failed[0])))
        shutil.rmtree(jd, ignore_errors=True)
        if ok:
            return {"verdict": "violation", "replay": rep_dir, "failed": failed, "mode": label}
        why.append("%s counterexample (%s) did not reproduce natively: %s" % (label, failed[0][:120], core._tail(rout, 4).replace("\n", " | ")))
        shutil.rmtree(rep_dir, ignore_errors=True)
    return {"verdict": "inconclusive", "why": "; ".join(why)}


def save_replay(pid, r, hc, lib, label, failed, vals):
    base = os.path.join(core.ROOT, "replays", pid)
    os.makedirs(base, exist_ok=True)
    name = re.sub(r"[^A-Za-z0-9_]", "_", r.key())
    d = os.path.join(base, name)
    shutil.rmtree(d, ignore_errors=True)
    os.makedirs(os.path.join(d, "src"))
    os.makedirs(os.path.join(d, ".cargo"))
    toml = open(os.path.join(hc.dir, "Cargo.toml")).read().replace(hc.pkg, "vk_replay")
    open(os.path.join(d, "Cargo.toml"), "w").write(toml)
    open(os.path.join(d, ".cargo", "config.toml"), "w").write("[net]\noffline = true\n")
    open(os.path.join(d, "src", "lib.rs"), "w").write(lib)
    with open(os.path.join(d, "replay.json"), "w") as f:
        json.dump({"property": pid, "job": r.key(), "harness": r.harness.name, "skeleton": r.skeleton, "mode": label,
                   "failed_checks": failed, "kani_any_draws_le_bytes": vals,
                   "how": "cargo kani playback -Z concrete-playback: native execution of the harness with the solver's values against /repo"}, f, indent=1)
    return d


MEMORY_CLASS = re.compile(r"deallocated dynamic object|dead object|pointer invalid|pointer outside object bounds|pointer NULL")


def native_replay(rep_dir, timeout=900, memcheck=False):
    """Run the playback test natively (dev profile, the one Kani models). True = the test fails (reproduced).
    memcheck=True (CBMC reported a memory-safety failure): a natively PASSING test is re-run under valgrind memcheck,
    because a use-after-free usually reads stale but still mapped memory; an invalid read/write reported by memcheck
    counts as reproduced."""
    lock = os.path.join(core.REPO, "Cargo.lock")
    if os.path.exists(lock):
        shutil.copy(lock, os.path.join(rep_dir, "Cargo.lock"))
    env = dict(core.ENV, CARGO_TARGET_DIR=os.path.join(core.WORK, "target_replay"))
    rc, out, _ = core.run(["cargo", "kani", "playback", "-Z", "concrete-playback", "--", "kani_concrete_playback"],
                          timeout=timeout, cwd=rep_dir, limit=False, env=env)
    reproduced = rc != 0 and "test result: FAILED" in out and "kani_concrete_playback" in out
    if not reproduced and memcheck and "test result: ok" in out:
        bins = sorted(glob.glob(os.path.join(env["CARGO_TARGET_DIR"], "**", "vk_replay-*"), recursive=True), key=os.path.getmtime)
        bins = [b for b in bins if os.access(b, os.X_OK) and not b.endswith(".d")]
        if bins:
            rc2, out2, _ = core.run(["valgrind", "--error-exitcode=9", "--quiet", bins[-1], "kani_concrete_playback", "--test-threads=1"], timeout=timeout, cwd=rep_dir, limit=False)
            if rc2 == 9 or "Invalid read" in out2 or "Invalid write" in out2:
                reproduced = True
                out = out + "\n[valgrind memcheck]\n" + core._tail(out2, 20)
    try:
        os.remove(os.path.join(rep_dir, "Cargo.lock"))
    except OSError:
        pass
    return reproduced, out


def replay_cmd(pid, path):
    if not os.path.isdir(path):
        print("replay path not found: " + path)
        return 2
    memc = False
    try:
        memc = any(MEMORY_CLASS.search(f) for f in json.load(open(os.path.join(path, "replay.json"))).get("failed_checks", []))
    except Exception:
        pass
    ok, out = native_replay(path, memcheck=memc)
    print(core._tail(out, 25))
    if ok:
        print("VIOLATION property=%s replay=%s" % (pid, path))
        return 1
    print("replay does not fail on the current tree")
    return 0
