def hunt(crate, r, ctx):
    return {"verdict": "inconclusive", "why": "hunt not implemented yet"}
def replay_cmd(pid, path):
    return 2
