"""Counterexample hunt + native replay (DESIGN.md 2.4 steps 2-3).

A job whose obligations were not proved is re-generated as a hunt crate. For float-bearing (e2) jobs the symbolic draws
come from a dyadic grid + specials and f32 comparisons are made tolerant (relative 1e-5), so the solver has to produce a
counterexample that is NOT a benign rounding difference; e1 jobs are hunted on the full domain with exact comparison.
CBMC (CaDiCaL, --stop-on-fail --trace) produces an assignment; the values of every kani::any() draw are read out of the
trace in call order and written, in Kani's concrete-playback format, into a stand-alone replay crate (concrete skeleton
table instead of the FFI hook). `cargo kani playback` then executes the harness NATIVELY against the real rrtk build;
only a natively failing replay is reported as a VIOLATION."""
import glob
import json
import os
import re
import shutil
import time

from . import core, driver

TOL_SAME = '''pub fn same(a: f32, b: f32) -> bool {
    if a.to_bits() == b.to_bits() || (a.is_nan() && b.is_nan()) || a == b { return true; }
    if a.is_nan() || b.is_nan() || a.is_infinite() || b.is_infinite() { return false; }
    let m = if a.abs() >= b.abs() { a.abs() } else { b.abs() };
    (a - b).abs() <= 1.0e-5 * m
}'''
EXACT_SAME_RE = re.compile(r"pub fn same\(a: f32, b: f32\) -> bool \{\n.*?\n\}", re.S)


def _crate_source(part, sk_impl, grid, tolerant, extra_test=None):
    rust = part["rust"]
    if extra_test:
        k = rust.rstrip().rfind("}")
        rust = rust[:k] + extra_test + "\n}\n"
    lib = driver.prelude(sk_impl, grid=grid) + "\n" + rust
    if tolerant:
        lib, n = EXACT_SAME_RE.subn(lambda m: TOL_SAME, lib, count=1)
        assert n == 1
    return lib


def extract_draws(trace):
    """Values returned by kani::any_raw_* in call order, as little-endian byte lists (Kani's playback format)."""
    vals = []
    for st in trace:
        if st.get("stepType") != "assignment":
            continue
        fn = st.get("sourceLocation", {}).get("function", "")
        if not fn.startswith("kani::any_raw_") or st.get("lhs") != "var_0":
            continue
        if st.get("hidden"):
            continue   # the declaration's default initialisation of var_0, not the nondet draw (present in unsliced traces)
        v = st.get("value", {})
        b = v.get("binary")
        if b is None:
            continue
        nbytes = max(1, (len(b) + 7) // 8)
        vals.append(list(int(b, 2).to_bytes(nbytes, "little")))
    return vals


def playback_test(harness_fn, vals):
    rows = ",\n            ".join("vec![%s]" % ", ".join(map(str, v)) for v in vals)
    return ('''
    #[test]
    fn kani_concrete_playback_%s() {
        let concrete_vals: Vec<Vec<u8>> = vec![
            %s
        ];
        kani::concrete_playback_run(concrete_vals, %s);
    }''' % (harness_fn, rows, harness_fn))


def hunt(crate, r, ctx):
    part = crate.part
    h = r.harness
    modes = [("grid", True, h.tolerant), ("full", False, False)] if h.engine == "e2" else [("full", False, False)]
    budget = int(os.environ.get("VK_HUNT_BUDGET", "120" if ctx.quick else "600"))
    why = []
    pretty = crate.meta[h.name][3]
    for label, grid, tol in modes:
        hc = core.Crate(ctx.prop_id, "hunt_" + label, features=crate.features, extra_deps=crate.extra_deps, rrtk_dep=crate.rrtk_dep)
        hc.write(_crate_source(part, driver.SK_FFI, grid, tol), part.get("extra_files"))
        jd = os.path.join(hc.dir, "job")
        shutil.rmtree(jd, ignore_errors=True)
        os.makedirs(jd)
        try:
            hc.codegen([pretty], stubbing=part.get("stubbing", False), exact=True)
            goto = core.link_job(hc, h, r.skeleton, jd)
            props = core.list_properties(goto, h)
        except core.BuildError as e:
            why.append("%s hunt build failed: %s" % (label, str(e)[-300:]))
            continue
        query, covers, allowed = core.classify(props, h)
        # no --slice-formula here: the slicer removes the nondet draws the failing property does not depend on from the trace,
        # and the native playback needs EVERY draw, in order (a short list ends in a panic inside Kani's playback library)
        cmd = ["cbmc"] + [f for f in core.CBMC_FLAGS if f != "--slice-formula"] + list(h.extra_cbmc) + core.unwind_flags(h) + \
              ["--sat-solver", "cadical", "--stop-on-fail", "--trace", "--json-ui"]
        for p in query:
            cmd += ["--property", p["name"]]
        cmd.append(goto)
        rc, out, secs = core.run(cmd, timeout=budget)
        if rc == -9:
            why.append("%s hunt timed out after %ds" % (label, budget))
            continue
        try:
            data = json.loads(out)
        except ValueError:
            why.append("%s hunt: unparsable cbmc output" % label)
            continue
        hit = None
        for item in data:
            if isinstance(item, dict) and "trace" in item and item.get("status") == "failed":
                hit = item
                break
        if hit is None:
            st = [i.get("cProverStatus") for i in data if isinstance(i, dict) and "cProverStatus" in i]
            why.append("%s hunt: no counterexample (cbmc %s in %.0fs)" % (label, st[0] if st else "?", secs))
            continue
        by_name = {p["name"]: p for p in query}
        failed = [core._pdesc(by_name[hit["property"]]) if hit["property"] in by_name else hit["property"]]
        vals = extract_draws(hit["trace"])
        sk_impl = driver.sk_const(r.skeleton if r.skeleton is not None else ())
        lib = _crate_source(part, sk_impl, grid, tol, extra_test=playback_test(h.name, vals))
        rep_dir = save_replay(ctx.prop_id, r, hc, lib, label, failed, vals)
        ok, rout = native_replay(rep_dir, memcheck=bool(MEMORY_CLASS.search(failed[0])))
        shutil.rmtree(jd, ignore_errors=True)
        if ok:
            rel = None
            if os.environ.get("VK_RELEASE_REPLAY", "1") != "0":
                rel, _ = native_replay(rep_dir, memcheck=False, release_like=True)
                try:
                    rj = os.path.join(rep_dir, "replay.json")
                    jd_ = json.load(open(rj))
                    jd_["release_like_profile"] = {"flags": RELEASE_LIKE, "fails_too": rel}
                    json.dump(jd_, open(rj, "w"), indent=1)
                except Exception:
                    pass
            return {"verdict": "violation", "replay": rep_dir, "failed": failed, "mode": label, "release_like_fails": rel}
        why.append("%s counterexample (%s) did not reproduce natively: %s" % (label, failed[0][:120], core._tail(rout, 4).replace("\n", " | ")))
        if not os.environ.get("VK_KEEP"):
            shutil.rmtree(rep_dir, ignore_errors=True)
    return {"verdict": "inconclusive", "why": "; ".join(why)}


def save_replay(pid, r, hc, lib, label, failed, vals):
    base = os.path.join(core.ROOT, "replays", pid)
    os.makedirs(base, exist_ok=True)
    name = re.sub(r"[^A-Za-z0-9_]", "_", r.key())
    d = os.path.join(base, name)
    shutil.rmtree(d, ignore_errors=True)
    os.makedirs(os.path.join(d, "src"))
    os.makedirs(os.path.join(d, ".cargo"))
    toml = open(os.path.join(hc.dir, "Cargo.toml")).read().replace(hc.pkg, "vk_replay")
    open(os.path.join(d, "Cargo.toml"), "w").write(toml)
    open(os.path.join(d, ".cargo", "config.toml"), "w").write("[net]\noffline = true\n")
    open(os.path.join(d, "src", "lib.rs"), "w").write(lib)
    with open(os.path.join(d, "replay.json"), "w") as f:
        json.dump({"property": pid, "job": r.key(), "harness": r.harness.name, "skeleton": r.skeleton, "mode": label,
                   "failed_checks": failed, "kani_any_draws_le_bytes": vals,
                   "how": "cargo kani playback -Z concrete-playback: native execution of the harness with the solver's values against /repo"}, f, indent=1)
    return d


PLAYBACK_MISMATCH = re.compile(r"panicked at [^\n]*concrete_playback\.rs")
MEMORY_CLASS = re.compile(r"deallocated dynamic object|dead object|pointer invalid|pointer outside object bounds|pointer NULL")


RELEASE_LIKE = {"OPT_LEVEL": "3", "DEBUG_ASSERTIONS": "false", "OVERFLOW_CHECKS": "false"}


def native_replay(rep_dir, timeout=300, memcheck=False, release_like=False, fresh_target=False):
    """Run the playback test natively (dev profile, the one Kani models). True = the test fails (reproduced).
    release_like=True: the same test with the release profile's semantic flags (opt-level 3, no debug assertions, no overflow
    checks) - informational only: the verdict is always the dev-profile one, because that is what the solver decided.
    memcheck=True (CBMC reported a memory-safety failure): a natively PASSING test is re-run under valgrind memcheck,
    because a use-after-free usually reads stale but still mapped memory; an invalid read/write reported by memcheck
    counts as reproduced."""
    lock = os.path.join(core.REPO, "Cargo.lock")
    if os.path.exists(lock):
        shutil.copy(lock, os.path.join(rep_dir, "Cargo.lock"))
    # a replay always runs against the CURRENT tree: point the rrtk dependency at it (the directory may have been written
    # while checking another checkout), and rebuild renamed second copies of the sources (C19) in a scratch directory
    toml_path = os.path.join(rep_dir, "Cargo.toml")
    toml_orig = open(toml_path).read()
    scratch = []

    def _redirect(m):
        name, path = m.group(1), m.group(2)
        if name == "rrtk":
            return '%s = { path = "%s"' % (name, core.REPO)
        if name.startswith("rrtk_"):
            base = "/tmp/vk_replay_%s_%d" % (name, os.getpid())
            shutil.rmtree(base, ignore_errors=True)
            os.makedirs(base)
            shutil.copytree(os.path.join(core.REPO, "src"), os.path.join(base, "src"))
            t = open(os.path.join(core.REPO, "Cargo.toml")).read()
            open(os.path.join(base, "Cargo.toml"), "w").write(re.sub(r'(?m)^name = "rrtk"', 'name = "%s"' % name, t, count=1))
            scratch.append(base)
            return '%s = { path = "%s"' % (name, base)
        return m.group(0)
    toml_new = re.sub(r'(?m)^(\w+) = \{ path = "([^"]+)"', _redirect, toml_orig)
    if toml_new != toml_orig:
        open(toml_path, "w").write(toml_new)
    # Kani's playback build does not key its output directory by the crate's path: with a shared target directory, a replay
    # crate whose sources are OLDER than the last build of another replay crate would be taken as fresh and the other crate's
    # test binary would run. So: always touch the source (forces the rebuild of the replay crate), and for `--replay` of a
    # stored directory use a private target directory (the rrtk dependency may point at a different checkout than last time).
    try:
        os.utime(os.path.join(rep_dir, "src", "lib.rs"), None)
    except OSError:
        pass
    tdir = os.path.join(core.WORK, "target_replay_rel" if release_like else "target_replay")
    if fresh_target:
        tdir += "_cmd_%d" % os.getpid()
        shutil.rmtree(tdir, ignore_errors=True)
    env = dict(core.ENV, CARGO_TARGET_DIR=tdir)
    if release_like:
        for prof in ("DEV", "TEST"):
            for k, v in RELEASE_LIKE.items():
                env["CARGO_PROFILE_%s_%s" % (prof, k)] = v
    rc, out, _ = core.run(["cargo", "kani", "playback", "-Z", "concrete-playback", "--", "kani_concrete_playback"],
                          timeout=timeout, cwd=rep_dir, limit=False, env=env)
    reproduced = rc != 0 and "test result: FAILED" in out and "kani_concrete_playback" in out
    # a panic inside Kani's playback library means the recorded draws do not drive THIS build down the recorded path
    # (the harness draws a different number of values): that is "not reproduced", never a violation
    # an obligation of ours (vk:TAG) is reproduced only by a native panic that is itself a failed obligation (vk:...): e.g. in a must-panic harness
    # the correct tree also ends in a panic (rrtk's own), which is the expected behaviour and not the recorded failure
    want = None
    try:
        fc = json.load(open(os.path.join(rep_dir, "replay.json"))).get("failed_checks", [])
        m = re.search(r"vk:([A-Za-z0-9_.\-]+)", fc[0]) if fc else None
        want = m.group(1) if m else None
    except Exception:
        pass
    if reproduced and want is not None:
        msgs = re.findall(r"panicked at [^\n]*\n([^\n]*)", out)
        # (any obligation of the harness counts: natively the first failing one in execution order fires, which need not be
        # the one the solver happened to report)
        if not any(mm.strip().startswith("vk:") for mm in msgs):
            reproduced = False
            out += "\n[vk] the native run fails, but not in an obligation of the harness (recorded: vk:%s): not reproduced\n" % want
    if reproduced and PLAYBACK_MISMATCH.search(out):
        reproduced = False
        out += "\n[vk] playback values do not fit this build's path (panic inside kani's concrete_playback): not reproduced\n"
    if not reproduced and memcheck and "test result: ok" in out:
        bins = sorted(glob.glob(os.path.join(env["CARGO_TARGET_DIR"], "**", "vk_replay-*"), recursive=True), key=os.path.getmtime)
        bins = [b for b in bins if os.access(b, os.X_OK) and not b.endswith(".d")]
        if bins:
            rc2, out2, _ = core.run(["valgrind", "--error-exitcode=9", "--quiet", bins[-1], "kani_concrete_playback", "--test-threads=1"], timeout=timeout, cwd=rep_dir, limit=False)
            if rc2 == 9 or "Invalid read" in out2 or "Invalid write" in out2:
                reproduced = True
                out = out + "\n[valgrind memcheck]\n" + core._tail(out2, 20)
    try:
        os.remove(os.path.join(rep_dir, "Cargo.lock"))
    except OSError:
        pass
    for b in scratch:
        shutil.rmtree(b, ignore_errors=True)
    if fresh_target:
        shutil.rmtree(tdir, ignore_errors=True)
    if scratch:
        open(toml_path, "w").write(toml_orig)
    if not reproduced and "test result:" not in out:
        if rc == -9:
            out += ("\n[vk] the playback test did not finish within %d s (natively a contended lock acquisition blocks; "
                    "Kani's sequential model of it does not): no verdict\n" % timeout)
        return None, out   # the playback crate did not build / run / finish: no verdict
    try:
        hn = json.load(open(os.path.join(rep_dir, "replay.json"))).get("harness")
        if hn and ("kani_concrete_playback_" + hn) not in out:
            return None, out + "\n[vk] the test that ran is not this replay's (kani_concrete_playback_%s): no verdict\n" % hn
    except (OSError, ValueError):
        pass
    return reproduced, out


def replay_cmd(pid, path):
    if not os.path.isdir(path):
        print("replay path not found: " + path)
        return 2
    memc = False
    try:
        memc = any(MEMORY_CLASS.search(f) for f in json.load(open(os.path.join(path, "replay.json"))).get("failed_checks", []))
    except Exception:
        pass
    ok, out = native_replay(path, memcheck=memc, fresh_target=True)
    print(core._tail(out, 25))
    if ok:
        rel, _ = native_replay(path, memcheck=False, release_like=True, fresh_target=True)
        print("[replay] dev profile (the one Kani models): FAILS; release-like profile (opt-level 3, no debug assertions, no overflow checks): %s"
              % ("FAILS too" if rel else ("does not fail" if rel is False else "did not build/run")))
        print("VIOLATION property=%s replay=%s" % (pid, path))
        return 1
    if ok is None:
        print("INCONCLUSIVE: the replay crate did not build, run or finish against the current tree")
        return 2
    print("replay does not fail on the current tree")
    return 0
