"""Tiny spec DSL: one expression tree -> (a) the Rust f32 mirror used in harnesses (exact dataflow, D)
and (b) the same tree as an SMT-LIB term over Real (R-lemmas). Floats are never treated as reals in (D);
(R) results are statements about the spec tree over the reals and are labelled so in the evidence."""
from fractions import Fraction


class X:
    def __add__(self, o): return Op("+", self, lift(o))
    def __radd__(self, o): return Op("+", lift(o), self)
    def __sub__(self, o): return Op("-", self, lift(o))
    def __rsub__(self, o): return Op("-", lift(o), self)
    def __mul__(self, o): return Op("*", self, lift(o))
    def __rmul__(self, o): return Op("*", lift(o), self)
    def __truediv__(self, o): return Op("/", self, lift(o))
    def __rtruediv__(self, o): return Op("/", lift(o), self)
    def __neg__(self): return Neg(self)


class V(X):
    """f32 variable (Real in R)."""
    def __init__(self, name): self.name = name
    def rust(self): return self.name
    def real(self): return self.name
    def vars(self): return {self.name}
    def tvars(self): return set()


class T(X):
    """i64 nanosecond variable; only usable under Secs()."""
    def __init__(self, name): self.name = name
    def __sub__(self, o): return TOp("-", self, o)
    def __add__(self, o): return TOp("+", self, o)
    def rust_i(self): return self.name
    def real_i(self): return self.name
    def tvars(self): return {self.name}


class TOp(T):
    def __init__(self, op, a, b): self.op, self.a, self.b = op, a, b
    def rust_i(self): return "(%s %s %s)" % (self.a.rust_i(), self.op, self.b.rust_i())
    def real_i(self): return "(%s %s %s)" % (self.op, self.a.real_i(), self.b.real_i())
    def tvars(self): return self.a.tvars() | self.b.tvars()


class Secs(X):
    """ns -> seconds: `ns as f32 / 1e9` in Rust, ns/10^9 over the reals."""
    def __init__(self, t): self.t = t
    def rust(self): return "secs(%s)" % self.t.rust_i()
    def real(self): return "(/ %s 1000000000.0)" % self.t.real_i()
    def vars(self): return set()
    def tvars(self): return self.t.tvars()


class C(X):
    def __init__(self, v): self.v = v
    def rust(self):
        s = repr(float(self.v))
        return ("(%s_f32)" % s) if float(self.v) < 0 else "%s_f32" % s
    def real(self):
        f = Fraction(self.v).limit_denominator(10**9) if not isinstance(self.v, int) else Fraction(self.v)
        s = "(/ %d.0 %d.0)" % (abs(f.numerator), f.denominator) if f.denominator != 1 else "%d.0" % abs(f.numerator)
        return "(- %s)" % s if f < 0 else s
    def vars(self): return set()
    def tvars(self): return set()


class Op(X):
    def __init__(self, op, a, b): self.op, self.a, self.b = op, a, b
    def rust(self): return "(%s %s %s)" % (self.a.rust(), self.op, self.b.rust())
    def real(self): return "(%s %s %s)" % (self.op, self.a.real(), self.b.real())
    def vars(self): return self.a.vars() | self.b.vars()
    def tvars(self): return self.a.tvars() | self.b.tvars()


class Neg(X):
    def __init__(self, a): self.a = a
    def rust(self): return "(-%s)" % self.a.rust()
    def real(self): return "(- %s)" % self.a.real()
    def vars(self): return self.a.vars()
    def tvars(self): return self.a.tvars()


def lift(o):
    return o if isinstance(o, X) else C(o)


def lemma(name, vars_, tvars, hyps, goal, note=""):
    """SMT-LIB2 text asserting hyps and the NEGATED goal over Real; unsat = lemma holds over the reals."""
    lines = ["(set-logic QF_NRA)"]
    for v in sorted(vars_ | tvars):
        lines.append("(declare-const %s Real)" % v)
    for h in hyps:
        lines.append("(assert %s)" % h)
    lines.append("(assert (not %s))" % goal)
    lines.append("(check-sat)")
    return {"name": name, "smt": "\n".join(lines) + "\n", "note": note}
