"""Property-preserving control: apply a hand-written refactor to a scratch worktree of /repo, confirm the existing
suite passes, run the named checks against it and record their exit codes (expected: no VIOLATION).
usage: python3 -m vk.negtest <dir with patch.diff> <name> <what> <ID> [<ID> ...]"""
import json
import os
import shutil
import subprocess
import sys
import time

ROOT = os.path.dirname(os.path.dirname(os.path.abspath(__file__)))


def sh(cmd, cwd=None, env=None, timeout=7200):
    p = subprocess.run(cmd, cwd=cwd, env=env, shell=isinstance(cmd, str), stdout=subprocess.PIPE, stderr=subprocess.STDOUT, text=True, timeout=timeout)
    return p.returncode, p.stdout


def main():
    src, name, what, ids = sys.argv[1], sys.argv[2], sys.argv[3], sys.argv[4:]
    sw, work = "/tmp/vk_neg_%s" % name, "/tmp/vk_negwork_%s" % name
    out = os.path.join(ROOT, "seeded", "control_" + name)
    os.makedirs(out, exist_ok=True)
    sh(["git", "-C", "/repo", "worktree", "remove", "--force", sw])
    shutil.rmtree(sw, ignore_errors=True)
    rc, o = sh(["git", "-C", "/repo", "worktree", "add", "--detach", sw, "HEAD"])
    assert rc == 0, o
    rec = {"kind": "property-preserving control (no alarm expected)", "what": what, "checks": {}, "ran": []}
    try:
        rc, o = sh(["git", "apply", os.path.join(src, "patch.diff")], cwd=sw)
        assert rc == 0, o
        env = dict(os.environ, CARGO_NET_OFFLINE="true", CARGO_TARGET_DIR=sw + "/target")
        rc1, o1 = sh("cargo test --workspace --no-fail-fast --offline 2>&1 | grep -E '^test result|FAILED|^error'; cargo test --offline --features devices 2>&1 | grep -E '^test result|FAILED|^error'", cwd=sw, env=env)
        rec["suite_passes_with_patch"] = "FAILED" not in o1 and "error" not in o1
        shutil.rmtree(sw + "/target", ignore_errors=True)
        for pid in ids:
            t0 = time.time()
            rc5, o5 = sh([os.path.join(ROOT, "check"), pid, "--tier", "quick"], cwd=ROOT, env=dict(os.environ, VK_REPO=sw, VK_WORK=work, VK_JOBS=os.environ.get("VK_SEED_JOBS", "8")))
            rec["checks"][pid] = {"exit": rc5, "wall_s": round(time.time() - t0), "violation_lines": [l for l in o5.splitlines() if l.startswith("VIOLATION")][:3], "tail": o5.splitlines()[-3:]}
            rec["ran"].append("VK_REPO=<patched scratch tree> ./check %s --tier quick" % pid)
    finally:
        shutil.copy(os.path.join(src, "patch.diff"), os.path.join(out, "patch.diff"))
        json.dump(rec, open(os.path.join(out, "meta.json"), "w"), indent=1)
        subprocess.run(["git", "-C", "/repo", "worktree", "remove", "--force", sw], capture_output=True)
        shutil.rmtree(sw, ignore_errors=True)
        shutil.rmtree(work, ignore_errors=True)
    print(name, {k: v["exit"] for k, v in rec["checks"].items()})


if __name__ == "__main__":
    main()
