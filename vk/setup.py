"""setup_cmd: warm the shared Kani target dir (builds rrtk + std for Kani once) and run the calibration suite."""
import sys
import time

from . import core


def main():
    t0 = time.time()
    try:
        from . import calib
    except ImportError:
        calib = None
    if calib is not None:
        rc = calib.main(force=True)
        print("calibration rc=%s in %.0fs" % (rc, time.time() - t0))
        return rc
    return 0


if __name__ == "__main__":
    sys.exit(main())
