"""check driver: generate -> build -> decide -> (hunt -> replay) -> evidence."""
import argparse
import importlib
import json
import os
import random
import sys
import time

from . import core

SK_FFI = '''extern "C" {
    fn vk_sk(i: u32) -> u32;
}
/// Concrete control skeleton, supplied per job by a linked C stub (one Kani codegen, many jobs).
pub fn sk(i: usize) -> u32 {
    unsafe { vk_sk(i as u32) }
}
'''


def sk_const(skeleton):
    vals = ", ".join(str(int(v)) for v in skeleton) or "0"
    n = max(1, len(skeleton))
    return ("pub const VK_T: [u32; %d] = [%s];\npub fn sk(i: usize) -> u32 { if i < %d { VK_T[i] } else { 0xFFFF } }\n"
            % (n, vals, len(skeleton)))


SYM_FULL = '''pub fn sym_f32() -> f32 { kani::any() }
pub fn sym_fin() -> f32 { let x: f32 = kani::any(); kani::assume(x.is_finite()); x }
pub fn sym_time() -> i64 { let t: i64 = kani::any(); kani::assume(t > -(1i64 << 60) && t < (1i64 << 60)); t }
pub fn sym_i64() -> i64 { kani::any() }
pub const VK_GRID: bool = false;
'''

SYM_GRID = '''const VK_SPECIALS: [f32; 12] = [0.0, -0.0, 1.0, -1.0, 0.5, 3.0, 1.0e-3, 1.0e6, 2.0, f32::INFINITY, f32::NEG_INFINITY, f32::NAN];
pub fn sym_f32() -> f32 {
    let k: i8 = kani::any();
    let s: u8 = kani::any();
    if s < 12 { VK_SPECIALS[s as usize] } else { (k as f32) * 0.25 }
}
pub fn sym_fin() -> f32 {
    let k: i8 = kani::any();
    let s: u8 = kani::any();
    if s < 9 { VK_SPECIALS[s as usize] } else { (k as f32) * 0.25 }
}
pub fn sym_time() -> i64 {
    let k: i16 = kani::any();
    let o: u8 = kani::any();
    kani::assume(o < 4);
    (k as i64) * 250_000_000 + match o { 0 => 0, 1 => 1, 2 => 1_000_000, _ => -1 }
}
pub fn sym_i64() -> i64 {
    let k: i16 = kani::any();
    let o: u8 = kani::any();
    kani::assume(o < 6);
    match o { 0 => k as i64, 1 => (k as i64) * 250_000_000, 2 => i64::MAX - (k as u16 as i64), 3 => i64::MIN + (k as u16 as i64), 4 => (k as i64) << 40, _ => (k as i64) * 1_000_000_000 + 1 }
}
pub const VK_GRID: bool = true;
'''


def prelude(sk_impl, grid=False):
    txt = open(os.path.join(core.ROOT, "tpl", "common.rs")).read()
    return txt.replace("//@SK@", sk_impl).replace("//@SYM@", SYM_GRID if grid else SYM_FULL)


def load_known():
    p = os.path.join(core.ROOT, "known_findings.json")
    try:
        return json.load(open(p))
    except OSError:
        return {"findings": [], "fixed": []}


class Ctx:
    def __init__(self, prop_id, tier, seed):
        self.prop_id = prop_id
        self.tier = tier
        self.seed = seed
        self.rng = random.Random(seed)
        self.quick = tier == "quick"


def main(argv=None):
    ap = argparse.ArgumentParser()
    ap.add_argument("prop")
    ap.add_argument("--tier", default=os.environ.get("VERIF_TIER", "quick"), choices=["quick", "thorough"])
    ap.add_argument("--replay")
    ap.add_argument("--only", help="regex: run only harnesses whose name matches (debugging; evidence not written)")
    ap.add_argument("--no-hunt", action="store_true")
    a = ap.parse_args(argv)
    seed = int(os.environ.get("VERIF_SEED", "0") or 0)
    pid = a.prop.upper()
    mod = importlib.import_module("vk.props." + pid.lower())
    if a.replay:
        from . import hunt
        return hunt.replay_cmd(pid, a.replay)
    ctx = Ctx(pid, a.tier, seed)
    from . import runner
    return runner.run_property(mod, ctx, only=a.only, do_hunt=not a.no_hunt)


if __name__ == "__main__":
    sys.exit(main())
