#!/bin/bash
# usage: run_all.sh <tier> [ids...]   -- runs the checks one after another, prints exit codes
tier=${1:-quick}; shift
ids=${@:-C01 C02 C03 C04 C05 C06 C07 C08 C09 C10 C11 C12 C13 C14 C15 C16 C17 C18 C19 C20}
for id in $ids; do
  s=$(date +%s)
  ./check $id --tier $tier > run_$id.$tier.log 2>&1
  rc=$?
  echo "$id $tier rc=$rc wall=$(( $(date +%s) - s ))s $(grep -E '^\[C..\] (quick|thorough):' run_$id.$tier.log | tail -1)"
done
