// Generated harness crate prelude (see /verif/DESIGN.md 2.1). Only rrtk's public API is used.
#![allow(unused, unused_unsafe, unused_mut, non_snake_case, dead_code, unreachable_code)]
#![allow(clippy::all)]
pub use core::cell::RefCell;
pub use rrtk::*;

/// Error payload used by every scripted input.
pub type E = u8;

macro_rules! vk_assert {
    ($cond:expr, $tag:literal) => {
        assert!($cond, concat!("vk:", $tag))
    };
}
/// Vacuity witness: must be reachable in every job.
macro_rules! vk_end {
    () => {
        kani::cover!(true, "vk_end")
    };
}

//@SK@
//@SYM@

/// Bit-identical, NaN-aware f32 equality (any NaN equals any NaN).
pub fn same(a: f32, b: f32) -> bool {
    a.to_bits() == b.to_bits() || (a.is_nan() && b.is_nan())
}
/// f32 *value* equality, NaN-aware (-0.0 equals +0.0).
pub fn veq(a: f32, b: f32) -> bool {
    a == b || (a.is_nan() && b.is_nan())
}
pub fn same_state(a: State, b: State) -> bool {
    same(a.position, b.position) && same(a.velocity, b.velocity) && same(a.acceleration, b.acceleration)
}
pub fn same_q(a: Quantity, b: Quantity) -> bool {
    same(a.value, b.value) && a.unit == b.unit
}
pub fn same_cmd(a: Command, b: Command) -> bool {
    PositionDerivative::from(a) == PositionDerivative::from(b) && same(f32::from(a), f32::from(b))
}
/// Seconds from nanoseconds, exactly as the documented conversion: ns as f32 / 1e9.
pub fn secs(ns: i64) -> f32 {
    ns as f32 / 1_000_000_000.0
}
pub fn max_t(a: i64, b: i64) -> i64 {
    if a >= b { a } else { b }
}
pub fn kind_of(k: u32) -> PositionDerivative {
    match k % 3 {
        0 => PositionDerivative::Position,
        1 => PositionDerivative::Velocity,
        _ => PositionDerivative::Acceleration,
    }
}
pub fn sym_kind() -> PositionDerivative {
    let k: u8 = kani::any();
    kani::assume(k < 3);
    kind_of(k as u32)
}
pub fn sym_unit60() -> (i8, i8) {
    let m: i8 = kani::any();
    let s: i8 = kani::any();
    kani::assume(m >= -60 && m <= 60 && s >= -60 && s <= 60);
    (m, s)
}

/// One scripted input event.
#[derive(Clone, Copy)]
pub enum Ev<T: Copy> {
    Some(i64, T),
    None,
    Err(E),
}
/// Scripted getter: returns ev[idx]; counts update() calls; never changes on get().
pub struct Script<T: Copy, const N: usize> {
    pub ev: [Ev<T>; N],
    pub idx: usize,
    pub updates: u32,
}
impl<T: Copy, const N: usize> Script<T, N> {
    pub fn new(ev: [Ev<T>; N]) -> Self {
        Self { ev, idx: 0, updates: 0 }
    }
}
impl<T: Copy, const N: usize> Getter<T, E> for Script<T, N> {
    fn get(&self) -> Output<T, E> {
        match self.ev[self.idx] {
            Ev::Some(t, v) => Ok(Some(Datum::new(Time(t), v))),
            Ev::None => Ok(None),
            Ev::Err(e) => Err(Error::Other(e)),
        }
    }
}
impl<T: Copy, const N: usize> Updatable<E> for Script<T, N> {
    fn update(&mut self) -> NothingOrError<E> {
        self.updates += 1;
        Ok(())
    }
}
/// Single-event getter.
pub struct One<T: Copy>(pub Ev<T>);
impl<T: Copy> Getter<T, E> for One<T> {
    fn get(&self) -> Output<T, E> {
        match self.0 {
            Ev::Some(t, v) => Ok(Some(Datum::new(Time(t), v))),
            Ev::None => Ok(None),
            Ev::Err(e) => Err(Error::Other(e)),
        }
    }
}
impl<T: Copy> Updatable<E> for One<T> {
    fn update(&mut self) -> NothingOrError<E> {
        Ok(())
    }
}
/// Scripted clock.
pub struct Clock(pub Result<i64, E>);
impl TimeGetter<E> for Clock {
    fn get(&self) -> TimeOutput<E> {
        match self.0 {
            Ok(t) => Ok(Time(t)),
            Err(e) => Err(Error::Other(e)),
        }
    }
}
impl Updatable<E> for Clock {
    fn update(&mut self) -> NothingOrError<E> {
        Ok(())
    }
}
pub fn ptr_ref<T>(x: &mut T) -> Reference<T> {
    unsafe { Reference::from_ptr(x as *mut T) }
}
pub fn dyn_ref<T: Copy + 'static, G: Getter<T, E> + 'static>(x: &mut G) -> Reference<dyn Getter<T, E>> {
    unsafe { Reference::from_ptr(x as *mut G as *mut dyn Getter<T, E>) }
}
pub fn out_same_f32(a: &Output<f32, E>, b: &Output<f32, E>) -> bool {
    match (a, b) {
        (Ok(None), Ok(None)) => true,
        (Err(x), Err(y)) => x == y,
        (Ok(Some(x)), Ok(Some(y))) => x.time == y.time && same(x.value, y.value),
        _ => false,
    }
}
pub fn out_same_q(a: &Output<Quantity, E>, b: &Output<Quantity, E>) -> bool {
    match (a, b) {
        (Ok(None), Ok(None)) => true,
        (Err(x), Err(y)) => x == y,
        (Ok(Some(x)), Ok(Some(y))) => x.time == y.time && same_q(x.value, y.value),
        _ => false,
    }
}
pub fn out_same_state(a: &Output<State, E>, b: &Output<State, E>) -> bool {
    match (a, b) {
        (Ok(None), Ok(None)) => true,
        (Err(x), Err(y)) => x == y,
        (Ok(Some(x)), Ok(Some(y))) => x.time == y.time && same_state(x.value, y.value),
        _ => false,
    }
}
