// Generated harness crate prelude (see /verif/DESIGN.md 2.1). Only rrtk's public API is used.
#![allow(unused, unused_unsafe, unused_mut, non_snake_case, dead_code, unreachable_code)]
#![allow(clippy::all)]
pub use core::cell::RefCell;
pub use rrtk::*;

/// Error payload used by every scripted input.
pub type E = u8;

macro_rules! vk_assert {
    ($cond:expr, $tag:literal) => {
        assert!($cond, concat!("vk:", $tag))
    };
}
/// Vacuity witness: must be reachable in every job.
macro_rules! vk_end {
    () => {
        kani::cover!(true, "vk_end")
    };
}

//@SK@
//@SYM@

/// Bit-identical, NaN-aware f32 equality (any NaN equals any NaN).
pub fn same(a: f32, b: f32) -> bool {
    a.to_bits() == b.to_bits() || (a.is_nan() && b.is_nan())
}
/// f32 *value* equality, NaN-aware (-0.0 equals +0.0).
pub fn veq(a: f32, b: f32) -> bool {
    a == b || (a.is_nan() && b.is_nan())
}
pub fn same_state(a: State, b: State) -> bool {
    same(a.position, b.position) && same(a.velocity, b.velocity) && same(a.acceleration, b.acceleration)
}
pub fn same_q(a: Quantity, b: Quantity) -> bool {
    same(a.value, b.value) && a.unit == b.unit
}
pub fn same_cmd(a: Command, b: Command) -> bool {
    PositionDerivative::from(a) == PositionDerivative::from(b) && same(f32::from(a), f32::from(b))
}
/// Seconds from nanoseconds, exactly as the documented conversion: ns as f32 / 1e9.
pub fn secs(ns: i64) -> f32 {
    ns as f32 / 1_000_000_000.0
}
pub fn max_t(a: i64, b: i64) -> i64 {
    if a >= b { a } else { b }
}
pub fn kind_of(k: u32) -> PositionDerivative {
    match k % 3 {
        0 => PositionDerivative::Position,
        1 => PositionDerivative::Velocity,
        _ => PositionDerivative::Acceleration,
    }
}
pub fn sym_kind() -> PositionDerivative {
    let k: u8 = kani::any();
    kani::assume(k < 3);
    kind_of(k as u32)
}
pub fn sym_unit60() -> (i8, i8) {
    let m: i8 = kani::any();
    let s: i8 = kani::any();
    kani::assume(m >= -60 && m <= 60 && s >= -60 && s <= 60);
    (m, s)
}

/// One scripted input event.
#[derive(Clone, Copy)]
pub enum Ev<T: Copy> {
    Some(i64, T),
    None,
    Err(E),
}
/// Scripted getter: returns ev[idx]; counts update() calls; never changes on get().
pub struct Script<T: Copy, const N: usize> {
    pub ev: [Ev<T>; N],
    pub idx: usize,
    pub updates: u32,
}
impl<T: Copy, const N: usize> Script<T, N> {
    pub fn new(ev: [Ev<T>; N]) -> Self {
        Self { ev, idx: 0, updates: 0 }
    }
}
impl<T: Copy, const N: usize> Getter<T, E> for Script<T, N> {
    fn get(&self) -> Output<T, E> {
        match self.ev[self.idx] {
            Ev::Some(t, v) => Ok(Some(Datum::new(Time(t), v))),
            Ev::None => Ok(None),
            Ev::Err(e) => Err(Error::Other(e)),
        }
    }
}
impl<T: Copy, const N: usize> Updatable<E> for Script<T, N> {
    fn update(&mut self) -> NothingOrError<E> {
        self.updates += 1;
        Ok(())
    }
}
/// Single-event getter.
pub struct One<T: Copy>(pub Ev<T>);
impl<T: Copy> Getter<T, E> for One<T> {
    fn get(&self) -> Output<T, E> {
        match self.0 {
            Ev::Some(t, v) => Ok(Some(Datum::new(Time(t), v))),
            Ev::None => Ok(None),
            Ev::Err(e) => Err(Error::Other(e)),
        }
    }
}
impl<T: Copy> Updatable<E> for One<T> {
    fn update(&mut self) -> NothingOrError<E> {
        Ok(())
    }
}
/// Scripted clock.
pub struct Clock(pub Result<i64, E>);
impl TimeGetter<E> for Clock {
    fn get(&self) -> TimeOutput<E> {
        match self.0 {
            Ok(t) => Ok(Time(t)),
            Err(e) => Err(Error::Other(e)),
        }
    }
}
impl Updatable<E> for Clock {
    fn update(&mut self) -> NothingOrError<E> {
        Ok(())
    }
}
pub fn ptr_ref<T>(x: &mut T) -> Reference<T> {
    unsafe { Reference::from_ptr(x as *mut T) }
}
pub fn dyn_ref<T: Copy + 'static, G: Getter<T, E> + 'static>(x: &mut G) -> Reference<dyn Getter<T, E>> {
    unsafe { Reference::from_ptr(x as *mut G as *mut dyn Getter<T, E>) }
}
pub fn out_same_f32(a: &Output<f32, E>, b: &Output<f32, E>) -> bool {
    match (a, b) {
        (Ok(None), Ok(None)) => true,
        (Err(x), Err(y)) => x == y,
        (Ok(Some(x)), Ok(Some(y))) => x.time == y.time && same(x.value, y.value),
        _ => false,
    }
}
pub fn out_same_q(a: &Output<Quantity, E>, b: &Output<Quantity, E>) -> bool {
    match (a, b) {
        (Ok(None), Ok(None)) => true,
        (Err(x), Err(y)) => x == y,
        (Ok(Some(x)), Ok(Some(y))) => x.time == y.time && same_q(x.value, y.value),
        _ => false,
    }
}
pub fn out_same_state(a: &Output<State, E>, b: &Output<State, E>) -> bool {
    match (a, b) {
        (Ok(None), Ok(None)) => true,
        (Err(x), Err(y)) => x == y,
        (Ok(Some(x)), Ok(Some(y))) => x.time == y.time && same_state(x.value, y.value),
        _ => false,
    }
}

/// Trace payload: the sequence of leaf ids and operator codes (4-bit digits, most significant first) of the
/// expression that produced the value. Equality of two traces means "the same operands were combined with the same
/// operators in the same order". Generic rrtk code cannot specialise on the payload type, so what is decided for
/// `Tr` holds for every `T` (parametricity). Capacity 16 digits (enough for 8 operands); loop- and multiplier-free.
#[derive(Clone, Copy, PartialEq, Eq, Debug, Default)]
pub struct Tr { pub bits: u64, pub len: u8 }
impl Tr {
    pub const fn leaf(id: u64) -> Tr { Tr { bits: id & 7, len: 1 } }
    /// a ++ [8 + op] ++ b
    pub const fn mix(a: Tr, b: Tr, op: u64) -> Tr {
        let sh = 4 * (b.len as u32 & 15);
        Tr { bits: (((a.bits << 4) | (8 + (op & 7))) << sh) | b.bits, len: (a.len + b.len + 1) & 31 }
    }
    pub const fn un(a: Tr, op: u64) -> Tr { Tr { bits: (a.bits << 4) | (8 + (op & 7)), len: (a.len + 1) & 31 } }
}
impl core::ops::Add for Tr { type Output = Tr; fn add(self, o: Tr) -> Tr { Tr::mix(self, o, 1) } }
impl core::ops::Sub for Tr { type Output = Tr; fn sub(self, o: Tr) -> Tr { Tr::mix(self, o, 2) } }
impl core::ops::Mul for Tr { type Output = Tr; fn mul(self, o: Tr) -> Tr { Tr::mix(self, o, 3) } }
impl core::ops::Div for Tr { type Output = Tr; fn div(self, o: Tr) -> Tr { Tr::mix(self, o, 4) } }
impl core::ops::Neg for Tr { type Output = Tr; fn neg(self) -> Tr { Tr::un(self, 5) } }
impl core::ops::Not for Tr { type Output = Tr; fn not(self) -> Tr { Tr::un(self, 6) } }
impl core::ops::AddAssign for Tr { fn add_assign(&mut self, o: Tr) { *self = Tr::mix(*self, o, 1) } }
impl core::ops::SubAssign for Tr { fn sub_assign(&mut self, o: Tr) { *self = Tr::mix(*self, o, 2) } }
impl core::ops::MulAssign for Tr { fn mul_assign(&mut self, o: Tr) { *self = Tr::mix(*self, o, 3) } }
impl core::ops::DivAssign for Tr { fn div_assign(&mut self, o: Tr) { *self = Tr::mix(*self, o, 4) } }

/// Recording settable: remembers the last value handed to impl_set, counts calls, can reject or fail its update.
pub struct Sink<T: Clone> {
    pub data: SettableData<T, E>,
    pub got: Option<T>,
    pub sets: u32,
    pub updates: u32,
    pub reject: Option<E>,
    pub update_error: Option<E>,
    pub sets_seen_at_update: u32,
}
impl<T: Clone> Sink<T> {
    pub fn new() -> Self {
        Self { data: SettableData::new(), got: None, sets: 0, updates: 0, reject: None, update_error: None, sets_seen_at_update: 0 }
    }
}
impl<T: Clone> Settable<T, E> for Sink<T> {
    fn get_settable_data_ref(&self) -> &SettableData<T, E> { &self.data }
    fn get_settable_data_mut(&mut self) -> &mut SettableData<T, E> { &mut self.data }
    fn impl_set(&mut self, value: T) -> NothingOrError<E> {
        self.sets += 1;
        match self.reject {
            Some(e) => Err(Error::Other(e)),
            None => { self.got = Some(value); Ok(()) }
        }
    }
}
impl<T: Clone> Updatable<E> for Sink<T> {
    fn update(&mut self) -> NothingOrError<E> {
        self.updates += 1;
        self.sets_seen_at_update = self.sets;
        if let Some(e) = self.update_error { return Err(Error::Other(e)); }
        self.update_following_data()?;
        Ok(())
    }
}
