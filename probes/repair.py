#!/usr/bin/env python3
"""Repair CBMC 6.11 SMT2 back-end mis-encoding of overflow_result-{+,-,*}:
it emits (concat VALUE FLAG) but extracts .result from the low bits and .overflowed from the top bit.
We swap to (concat FLAG VALUE). Prints number of sites repaired on stderr."""
import sys,re
s=open(sys.argv[1]).read()
out=[];i=0;n=0
pat="(concat ((_ extract "
def match_paren(s,i):
    # s[i]=='(' -> index after matching ')'
    d=0;j=i;inq=False
    while True:
        c=s[j]
        if inq:
            if c=='|': inq=False
        else:
            if c=='|': inq=True
            elif c=='(': d+=1
            elif c==')':
                d-=1
                if d==0: return j+1
        j+=1
while True:
    k=s.find(pat,i)
    if k<0: out.append(s[i:]);break
    out.append(s[i:k])
    a0=k+len("(concat ")
    a1=match_paren(s,a0)
    arg1=s[a0:a1]
    # skip whitespace
    b0=a1
    while s[b0]==' ': b0+=1
    if s[b0]=='(':
        b1=match_paren(s,b0)
        arg2=s[b0:b1]
        end=b1
        while s[end]==' ': end+=1
        m=re.fullmatch(r"\(\(_ extract (\d+) 0\) (\?sum|prod)\)",arg1)
        if m and arg2.startswith("(ite ") and arg2.endswith(" #b1 #b0)") and s[end]==')':
            out.append("(concat "+arg2+" "+arg1+")")
            i=end+1;n+=1
            continue
    out.append(pat);i=k+len(pat)
open(sys.argv[2],'w').write("".join(out))
sys.stderr.write("repaired %d overflow_result sites\n"%n)
