#![allow(unused)]
use rrtk::*;

#[cfg(kani)]
mod h {
    use super::*;
    #[kani::proof]
    fn cfg_probe() {
        // does kani build with debug assertions?
        kani::cover!(cfg!(debug_assertions), "debug_assertions on");
        kani::cover!(!cfg!(debug_assertions), "debug_assertions off");
    }

    #[kani::proof]
    fn datum_add_time() {
        let t1: i64 = kani::any();
        let t2: i64 = kani::any();
        let a: f32 = kani::any();
        let b: f32 = kani::any();
        let d = Datum::new(Time(t1), a) + Datum::new(Time(t2), b);
        assert!(d.time.0 == if t1 >= t2 { t1 } else { t2 });
        let r = a + b;
        assert!(d.value.to_bits() == r.to_bits() || (d.value.is_nan() && r.is_nan()));
    }

    #[kani::proof]
    fn quantity_mul_units() {
        let m1: i8 = kani::any(); let s1: i8 = kani::any();
        let m2: i8 = kani::any(); let s2: i8 = kani::any();
        kani::assume(m1 >= -60 && m1 <= 60 && s1 >= -60 && s1 <= 60);
        kani::assume(m2 >= -60 && m2 <= 60 && s2 >= -60 && s2 <= 60);
        let a: f32 = kani::any(); let b: f32 = kani::any();
        let q = Quantity::new(a, Unit::new(m1, s1)) * Quantity::new(b, Unit::new(m2, s2));
        assert!(q.unit == Unit::new(m1 + m2, s1 + s2));
        let r = a * b;
        assert!(q.value.to_bits() == r.to_bits() || (q.value.is_nan() && r.is_nan()));
    }
}

#[cfg(kani)]
mod h2 {
    use super::*;
    fn same(a: f32, b: f32) -> bool { a.to_bits() == b.to_bits() || (a.is_nan() && b.is_nan()) }
    #[kani::proof]
    fn qmul_finite() {
        let a: f32 = kani::any(); let b: f32 = kani::any();
        kani::assume(a.is_finite() && b.is_finite());
        let q = Quantity::new(a, MILLIMETER) * Quantity::new(b, SECOND);
        assert!(q.unit == MILLIMETER_SECOND);
        assert!(same(q.value, a * b));
    }
    #[kani::proof]
    fn qdiv_finite() {
        let a: f32 = kani::any(); let b: f32 = kani::any();
        kani::assume(a.is_finite() && b.is_finite());
        let q = Quantity::new(a, MILLIMETER) / Quantity::new(b, SECOND);
        assert!(q.unit == MILLIMETER_PER_SECOND);
        assert!(same(q.value, a / b));
    }
    #[kani::proof]
    fn time_to_quantity() {
        let t: i64 = kani::any();
        let q = Quantity::from(Time(t));
        assert!(q.unit == SECOND);
        assert!(same(q.value, t as f32 / 1_000_000_000.0));
    }
}

#[cfg(kani)]
mod h3 {
    use super::*;
    fn same(a: f32, b: f32) -> bool { a.to_bits() == b.to_bits() || (a.is_nan() && b.is_nan()) }
    fn grid8() -> f32 { let k: i8 = kani::any(); (k as f32) * 0.25 }
    fn grid12() -> f32 { let k: i16 = kani::any(); kani::assume(k >= -2048 && k < 2048); (k as f32) * 0.125 }
    #[kani::proof]
    fn qmul_grid8() {
        let a = grid8(); let b = grid8();
        let q = Quantity::new(a, MILLIMETER) * Quantity::new(b, SECOND);
        assert!(same(q.value, a * b));
    }
    #[kani::proof]
    fn qdiv_grid8() {
        let a = grid8(); let b = grid8();
        let q = Quantity::new(a, MILLIMETER) / Quantity::new(b, SECOND);
        assert!(same(q.value, a / b));
    }
    #[kani::proof]
    fn qmul_grid12() {
        let a = grid12(); let b = grid12();
        let q = Quantity::new(a, MILLIMETER) * Quantity::new(b, SECOND);
        assert!(same(q.value, a * b));
    }
    #[kani::proof]
    fn qdiv_grid12() {
        let a = grid12(); let b = grid12();
        let q = Quantity::new(a, MILLIMETER) / Quantity::new(b, SECOND);
        assert!(same(q.value, a / b));
    }
    #[kani::proof]
    fn time_to_quantity_ms() {
        let k: i32 = kani::any();
        kani::assume(k >= 0 && k < 100_000);
        let t = (k as i64) * 1_000_000; // ms grid up to 100 s
        let q = Quantity::from(Time(t));
        assert!(same(q.value, t as f32 / 1_000_000_000.0));
    }
}

#[cfg(kani)]
mod h4 {
    use super::*;
    use rrtk::streams::control::*;
    fn same(a: f32, b: f32) -> bool { a.to_bits() == b.to_bits() || (a.is_nan() && b.is_nan()) }
    #[derive(Clone, Copy)]
    pub enum Ev { Some(i64, f32), None, Err(u8) }
    pub struct Script<const N: usize> { pub ev: [Ev; N], pub idx: usize }
    impl<const N: usize> Getter<f32, u8> for Script<N> {
        fn get(&self) -> Output<f32, u8> {
            match self.ev[self.idx] {
                Ev::Some(t, v) => Ok(Some(Datum::new(Time(t), v))),
                Ev::None => Ok(None),
                Ev::Err(e) => Err(Error::Other(e)),
            }
        }
    }
    impl<const N: usize> Updatable<u8> for Script<N> {
        fn update(&mut self) -> NothingOrError<u8> { Ok(()) }
    }
    fn any_ev() -> Ev {
        let k: u8 = kani::any();
        match k % 3 {
            0 => Ev::Some(kani::any(), kani::any()),
            1 => Ev::None,
            _ => Ev::Err(kani::any()),
        }
    }
    // reference model of PID: state (prev: Option<(t,e)>, int), output
    pub struct RefPid { sp: f32, kp: f32, ki: f32, kd: f32, prev: Option<(i64, f32)>, int: f32, out: Output<f32, u8> }
    impl RefPid {
        fn step(&mut self, ev: Ev) {
            match ev {
                Ev::None => { self.prev = None; self.int = 0.0; self.out = Ok(None); }
                Ev::Err(e) => { self.prev = None; self.int = 0.0; self.out = Err(Error::Other(e)); }
                Ev::Some(t, x) => {
                    let e = self.sp - x;
                    let (add, d) = match self.prev {
                        Some((tp, ep)) => {
                            let dt = (t - tp) as f32 / 1_000_000_000.0;
                            (dt * (ep + e) / 2.0, (e - ep) / dt)
                        }
                        None => (0.0, 0.0),
                    };
                    self.int += add;
                    self.out = Ok(Some(Datum::new(Time(t), self.kp * e + self.ki * self.int + self.kd * d)));
                    self.prev = Some((t, e));
                }
            }
        }
    }
    fn out_same(a: &Output<f32, u8>, b: &Output<f32, u8>) -> bool {
        match (a, b) {
            (Ok(None), Ok(None)) => true,
            (Err(x), Err(y)) => x == y,
            (Ok(Some(x)), Ok(Some(y))) => x.time == y.time && same(x.value, y.value),
            _ => false,
        }
    }
    #[kani::proof]
    #[kani::unwind(5)]
    fn pid_hist3() {
        const N: usize = 3;
        let mut evs = [Ev::None; N];
        for i in 0..N { evs[i] = any_ev(); }
        // timestamps: no overflow in differences
        for i in 0..N { if let Ev::Some(t, _) = evs[i] { kani::assume(t > -(1i64 << 60) && t < (1i64 << 60)); } }
        let mut script = Script::<N> { ev: evs, idx: 0 };
        let r = unsafe { Reference::from_ptr(&mut script as *mut Script<N>) };
        let sp: f32 = kani::any(); let kp: f32 = kani::any(); let ki: f32 = kani::any(); let kd: f32 = kani::any();
        let mut pid = PIDControllerStream::new(r.clone(), sp, PIDKValues::new(kp, ki, kd));
        let mut m = RefPid { sp, kp, ki, kd, prev: None, int: 0.0, out: Ok(None) };
        for i in 0..N {
            r.borrow_mut().idx = i;
            let res = pid.update();
            m.step(evs[i]);
            match evs[i] { Ev::Err(e) => assert!(res == Err(Error::Other(e))), _ => assert!(res == Ok(())) }
            let got = pid.get();
            assert!(out_same(&got, &m.out));
            let got2 = pid.get();
            assert!(out_same(&got, &got2));
        }
    }

    #[kani::proof]
    fn state_update_mirror() {
        let p: f32 = kani::any(); let v: f32 = kani::any(); let a: f32 = kani::any(); let dt: i64 = kani::any();
        let mut s = State::new_raw(p, v, a);
        s.update(Time(dt));
        let d = dt as f32 / 1_000_000_000.0;
        let nv = v + d * a;
        let np = p + d * (v + nv) / 2.0;
        assert!(same(s.velocity, nv));
        assert!(same(s.position, np));
        assert!(same(s.acceleration, a));
    }
}

#[cfg(kani)]
mod h5 {
    use super::*;
    use super::h4::*;
    use rrtk::streams::control::*;
    fn same(a: f32, b: f32) -> bool { a.to_bits() == b.to_bits() || (a.is_nan() && b.is_nan()) }
    pub struct RefPid { sp: f32, kp: f32, ki: f32, kd: f32, prev: Option<(i64, f32)>, int: f32, out: Output<f32, u8> }
    impl RefPid {
        fn step(&mut self, ev: Ev) {
            match ev {
                Ev::None => { self.prev = None; self.int = 0.0; self.out = Ok(None); }
                Ev::Err(e) => { self.prev = None; self.int = 0.0; self.out = Err(Error::Other(e)); }
                Ev::Some(t, x) => {
                    let e = self.sp - x;
                    let (add, d) = match self.prev {
                        Some((tp, ep)) => {
                            let dt = (t - tp) as f32 / 1_000_000_000.0;
                            (dt * (ep + e) / 2.0, (e - ep) / dt)
                        }
                        None => (0.0, 0.0),
                    };
                    self.int += add;
                    self.out = Ok(Some(Datum::new(Time(t), self.kp * e + self.ki * self.int + self.kd * d)));
                    self.prev = Some((t, e));
                }
            }
        }
    }
    fn out_same(a: &Output<f32, u8>, b: &Output<f32, u8>) -> bool {
        match (a, b) {
            (Ok(None), Ok(None)) => true,
            (Err(x), Err(y)) => x == y,
            (Ok(Some(x)), Ok(Some(y))) => x.time == y.time && same(x.value, y.value),
            _ => false,
        }
    }
    fn ev_of(kind: u8) -> Ev {
        match kind { 0 => Ev::Some(kani::any(), kani::any()), 1 => Ev::None, _ => Ev::Err(kani::any()) }
    }
    fn run<const N: usize>(kinds: [u8; N]) {
        let mut evs = [Ev::None; N];
        for i in 0..N { evs[i] = ev_of(kinds[i]); }
        for i in 0..N { if let Ev::Some(t, _) = evs[i] { kani::assume(t > -(1i64 << 60) && t < (1i64 << 60)); } }
        let mut script = Script::<N> { ev: evs, idx: 0 };
        let r = unsafe { Reference::from_ptr(&mut script as *mut Script<N>) };
        let sp: f32 = kani::any(); let kp: f32 = kani::any(); let ki: f32 = kani::any(); let kd: f32 = kani::any();
        let mut pid = PIDControllerStream::new(r.clone(), sp, PIDKValues::new(kp, ki, kd));
        let mut m = RefPid { sp, kp, ki, kd, prev: None, int: 0.0, out: Ok(None) };
        for i in 0..N {
            r.borrow_mut().idx = i;
            let res = pid.update();
            m.step(evs[i]);
            match evs[i] { Ev::Err(e) => assert!(res == Err(Error::Other(e))), _ => assert!(res == Ok(())) }
            let got = pid.get();
            assert!(out_same(&got, &m.out));
        }
    }
    #[kani::proof] #[kani::unwind(6)] fn pid_sss() { run([0,0,0]); }
    #[kani::proof] #[kani::unwind(6)] fn pid_ssss() { run([0,0,0,0]); }
    #[kani::proof] #[kani::unwind(6)] fn pid_sess() { run([0,2,0,0]); }
}
#[cfg(kani)]
mod h6 {
    use super::*;
    fn same(a: f32, b: f32) -> bool { a.to_bits() == b.to_bits() || (a.is_nan() && b.is_nan()) }
    #[kani::proof]
    fn state_update_wrong() {
        let p: f32 = kani::any(); let v: f32 = kani::any(); let a: f32 = kani::any(); let dt: i64 = kani::any();
        kani::assume(p.is_finite() && v.is_finite() && a.is_finite());
        let mut s = State::new_raw(p, v, a);
        s.update(Time(dt));
        let d = dt as f32 / 1_000_000_000.0;
        let nv = v + d * a;
        let np = p + d * (v + nv) / 3.0;
        assert!(same(s.position, np));
    }
}
#[cfg(kani)]
mod h7 {
    use super::*;
    fn same(a: f32, b: f32) -> bool { a.to_bits() == b.to_bits() || (a.is_nan() && b.is_nan()) }
    fn grid8() -> f32 { let k: i8 = kani::any(); (k as f32) * 0.25 }
    #[kani::proof]
    fn state_update_wrong_grid() {
        let p = grid8(); let v = grid8(); let a = grid8();
        let k: i8 = kani::any();
        let dt: i64 = (k as i64) * 250_000_000;
        let mut s = State::new_raw(p, v, a);
        s.update(Time(dt));
        let d = dt as f32 / 1_000_000_000.0;
        let nv = v + d * a;
        let np = p + d * (v + nv) / 3.0;
        assert!(same(s.position, np));
    }
}
#[cfg(kani)]
mod h8 {
    use super::*;
    fn grid(bits: u32, scale: f32) -> f32 { let k: i16 = kani::any(); let lim = 1i16 << (bits-1); kani::assume(k >= -lim && k < lim); (k as f32) * scale }
    fn check_tol(p: f32, v: f32, a: f32, dt: i64) {
        let mut s = State::new_raw(p, v, a);
        s.update(Time(dt));
        let d = dt as f32 / 1_000_000_000.0;
        // textbook order
        let tv = v + a * d;
        let tp = p + v * d + a * d * d / 2.0;
        let scale = p.abs() + (v * d).abs() + (a * d * d).abs();
        let tol = 8.0 * f32::EPSILON * scale;
        assert!((s.velocity - tv).abs() <= 4.0 * f32::EPSILON * (v.abs() + (a*d).abs()));
        assert!((s.position - tp).abs() <= tol);
    }
    #[kani::proof]
    fn su_tol_g6() { let k: i8 = kani::any(); check_tol(grid(6,0.25), grid(6,0.25), grid(6,0.25), (k as i64) * 250_000_000); }
    #[kani::proof]
    fn su_tol_g8() { let k: i8 = kani::any(); check_tol(grid(8,0.25), grid(8,0.25), grid(8,0.25), (k as i64) * 250_000_000); }
    #[kani::proof]
    fn su_tol_g8_ms() { let k: i16 = kani::any(); check_tol(grid(8,0.25), grid(8,0.25), grid(8,0.25), (k as i64) * 1_000_000); }
}
#[cfg(kani)]
mod h9 {
    use super::*;
    use core::cell::RefCell;
    use rrtk::streams::control::*;
    // P3: terminals
    #[kani::proof]
    #[kani::unwind(4)]
    fn term_ops3() {
        let t0 = Terminal::<u8>::new(); let t1 = Terminal::<u8>::new(); let t2 = Terminal::<u8>::new();
        let ts = [&t0, &t1, &t2];
        for _ in 0..3 {
            let op: u8 = kani::any(); let i: usize = kani::any(); let j: usize = kani::any();
            kani::assume(i < 3 && j < 3 && i != j);
            if op % 2 == 0 { connect(ts[i], ts[j]); } else { ts[i].borrow_mut().disconnect(); }
        }
    }
    #[kani::proof]
    #[kani::unwind(4)]
    fn term_connect_twice() {
        let t0 = Terminal::<u8>::new(); let t1 = Terminal::<u8>::new();
        connect(&t0, &t1);
        connect(&t0, &t1);
    }
    // P7: powf
    #[kani::proof]
    fn powf_probe() {
        let x: f32 = kani::any(); let y: f32 = kani::any();
        kani::assume(x > 0.0 && x < 1.0 && y >= 0.0 && y < 10.0);
        let r = x.powf(y);
        kani::cover!(r > 0.5, "powf can be > .5");
        assert!(r <= 1.0);
    }
    #[kani::proof]
    fn powf_zero() {
        let x: f32 = kani::any();
        kani::assume(x >= 0.0 && x <= 1.0);
        let r = x.powf(0.0);
        assert!(r == 1.0);
    }
    // P5: references
    #[kani::proof]
    fn ref_rc() {
        let r = rc_ref_cell_reference(5u8);
        let c = r.clone();
        *c.borrow_mut() += 1;
        assert!(*r.borrow() == 6);
    }
    #[kani::proof]
    fn ref_arc_mutex() {
        let r = arc_mutex_reference(5u8);
        let c = r.clone();
        *c.borrow_mut() += 1;
        assert!(*r.borrow() == 6);
    }
    #[kani::proof]
    fn ref_arc_rwlock() {
        let r = arc_rw_lock_reference(5u8);
        let c = r.clone();
        *c.borrow_mut() += 1;
        assert!(*r.borrow() == 6);
    }
    trait Tr { fn v(&self) -> u8; }
    impl Tr for u8 { fn v(&self) -> u8 { *self } }
    #[kani::proof]
    fn ref_to_dyn_rc() {
        let r = rc_ref_cell_reference(5u8);
        let d = to_dyn!(Tr, r.clone());
        *r.borrow_mut() += 1;
        assert!(d.borrow().v() == 6);
    }
}
#[cfg(kani)]
mod h10 {
    use super::*;
    #[kani::proof]
    fn t2q_monotone() {
        let a: i64 = kani::any(); let b: i64 = kani::any();
        kani::assume(a <= b);
        let qa = Quantity::from(Time(a)); let qb = Quantity::from(Time(b));
        assert!(qa.value <= qb.value);
    }
    #[kani::proof]
    fn t2q_roundtrip() {
        let a: i64 = kani::any();
        kani::assume(a > -(1i64<<62) && a < (1i64<<62));
        let q = Quantity::from(Time(a));
        let t = Time::try_from(q).unwrap();
        let diff = (t.0 as i128 - a as i128).abs();
        let bound = ((a as i128).abs() >> 22) + 1;
        assert!(diff <= bound);
    }
    #[kani::proof]
    fn q2t_nonsecond_fails() {
        let m: i8 = kani::any(); let s: i8 = kani::any(); let v: f32 = kani::any();
        kani::assume(!(m == 0 && s == 1));
        assert!(Time::try_from(Quantity::new(v, Unit::new(m, s))).is_err());
    }
}
#[cfg(kani)]
mod h11 {
    use super::*;
    #[kani::proof]
    fn t2q_adjacent() {
        let a: i64 = kani::any();
        kani::assume(a < i64::MAX);
        let qa = Quantity::from(Time(a)); let qb = Quantity::from(Time(a + 1));
        assert!(qa.value <= qb.value);
    }
    #[kani::proof]
    fn t2q_adjacent_30() {
        let a: i64 = kani::any();
        kani::assume(a > -(1i64<<30) && a < (1i64<<30));
        let qa = Quantity::from(Time(a)); let qb = Quantity::from(Time(a + 1));
        assert!(qa.value <= qb.value);
    }
    #[kani::proof]
    fn t2q_roundtrip_30() {
        let a: i64 = kani::any();
        kani::assume(a > -(1i64<<30) && a < (1i64<<30));
        let q = Quantity::from(Time(a));
        let t = Time::try_from(q).unwrap();
        let diff = (t.0 - a).abs();
        let bound = (a.abs() >> 22) + 1;
        assert!(diff <= bound);
    }
}
#[cfg(kani)]
mod h12 {
    use super::*;
    use rrtk::streams::math::*;
    use rrtk::streams::control::*;
    use rrtk::devices::*;
    fn same(a: f32, b: f32) -> bool { a.to_bits() == b.to_bits() || (a.is_nan() && b.is_nan()) }
    // (a) SumStream with trace payload
    #[derive(Clone, Copy, PartialEq, Eq, Debug)]
    pub struct Tr { len: u8, items: [u8; 4] }
    impl core::ops::AddAssign for Tr {
        fn add_assign(&mut self, o: Tr) { for i in 0..(o.len as usize) { if (self.len as usize) < 4 { self.items[self.len as usize] = o.items[i]; self.len += 1; } } }
    }
    #[derive(Clone, Copy)]
    pub enum In { Some(i64, u8), None, Err(u8) }
    pub struct G(pub In);
    impl Getter<Tr, u8> for G {
        fn get(&self) -> Output<Tr, u8> { match self.0 { In::Some(t, id) => Ok(Some(Datum::new(Time(t), Tr{len:1, items:[id,0,0,0]}))), In::None => Ok(None), In::Err(e) => Err(Error::Other(e)) } }
    }
    impl Updatable<u8> for G { fn update(&mut self) -> NothingOrError<u8> { Ok(()) } }
    fn any_in(id: u8) -> In { let k: u8 = kani::any(); match k % 3 { 0 => In::Some(kani::any(), id), 1 => In::None, _ => In::Err(kani::any()) } }
    #[kani::proof]
    #[kani::unwind(6)]
    fn sum3_trace() {
        let ins = [any_in(1), any_in(2), any_in(3)];
        let mut g0 = G(ins[0]); let mut g1 = G(ins[1]); let mut g2 = G(ins[2]);
        let r0 = unsafe { Reference::from_ptr(&mut g0 as *mut G as *mut dyn Getter<Tr, u8>) };
        let r1 = unsafe { Reference::from_ptr(&mut g1 as *mut G as *mut dyn Getter<Tr, u8>) };
        let r2 = unsafe { Reference::from_ptr(&mut g2 as *mut G as *mut dyn Getter<Tr, u8>) };
        let s = SumStream::new([r0, r1, r2]);
        let out = s.get();
        // reference
        let mut first_err = None; for i in 0..3 { if let In::Err(e) = ins[i] { if first_err.is_none() { first_err = Some(e); } } }
        match first_err {
            Some(e) => assert!(out == Err(Error::Other(e))),
            None => {
                let mut exp = Tr{len:0, items:[0;4]}; let mut tmax: Option<i64> = None;
                for i in 0..3 { if let In::Some(t, id) = ins[i] { exp.items[exp.len as usize] = id; exp.len += 1; tmax = Some(match tmax { Some(m) if m >= t => m, _ => t }); } }
                match tmax { None => assert!(out == Ok(None)), Some(tm) => { let d = out.unwrap().unwrap(); assert!(d.time.0 == tm); assert!(d.value == exp); } }
            }
        }
    }
    // (e) Invert device update
    #[kani::proof]
    #[kani::unwind(4)]
    fn invert_states() {
        let mut inv = Invert::<u8>::new();
        let (p1,v1,a1,p2,v2,a2): (f32,f32,f32,f32,f32,f32) = (kani::any(),kani::any(),kani::any(),kani::any(),kani::any(),kani::any());
        let t1: i64 = kani::any(); let t2: i64 = kani::any();
        inv.get_terminal_1().borrow_mut().set(Datum::new(Time(t1), State::new_raw(p1,v1,a1))).unwrap();
        inv.get_terminal_2().borrow_mut().set(Datum::new(Time(t2), State::new_raw(p2,v2,a2))).unwrap();
        inv.update().unwrap();
        let s1: Datum<State> = inv.get_terminal_1().borrow().get_last_request().unwrap();
        let s2: Datum<State> = inv.get_terminal_2().borrow().get_last_request().unwrap();
        let tm = if t1 >= t2 { t1 } else { t2 };
        assert!(s1.time.0 == tm && s2.time.0 == tm);
        assert!(same(s1.value.position, (p1 - p2) / 2.0));
        assert!(same(s2.value.position, -((p1 - p2) / 2.0)));
        assert!(same(s1.value.velocity, (v1 - v2) / 2.0));
    }
}
#[cfg(kani)]
mod h13 {
    use super::*;
    use super::h4::*;
    use rrtk::streams::control::*;
    fn same(a: f32, b: f32) -> bool { a.to_bits() == b.to_bits() || (a.is_nan() && b.is_nan()) }
    // (b) moving average, concrete skeleton SSS, symbolic values; check no panic + first output
    #[kani::proof]
    #[kani::unwind(8)]
    fn mavg_sss() {
        const N: usize = 3;
        let w: i64 = kani::any(); kani::assume(w > 0 && w < (1i64<<40));
        let mut evs = [Ev::None; N];
        let mut last = 0i64;
        for i in 0..N { let t: i64 = kani::any(); kani::assume(t >= last && t < (1i64<<50)); last = t; evs[i] = Ev::Some(t, kani::any()); }
        let mut script = Script::<N> { ev: evs, idx: 0 };
        let r = unsafe { Reference::from_ptr(&mut script as *mut Script<N>) };
        let mut ma: MovingAverageStream<f32, _, u8> = MovingAverageStream::new(r.clone(), Time(w));
        for i in 0..N {
            r.borrow_mut().idx = i;
            let res = ma.update();
            assert!(res == Ok(()));
            let got = ma.get();
            match (got, evs[i]) { (Ok(Some(d)), Ev::Some(t, _)) => assert!(d.time.0 == t), _ => assert!(false) }
        }
    }
    // (c) EWMA with powf stubbed by mixing function
    fn mix_powf(x: f32, y: f32) -> f32 { f32::from_bits(x.to_bits().rotate_left(7) ^ y.to_bits().wrapping_mul(0x9E37_79B1)) }
    #[kani::proof]
    #[kani::stub(f32::powf, mix_powf)]
    #[kani::unwind(4)]
    fn ewma_ss() {
        const N: usize = 2;
        let s: f32 = kani::any();
        let (t0, t1): (i64, i64) = (kani::any(), kani::any());
        kani::assume(t0 > -(1i64<<60) && t0 < (1i64<<60) && t1 > -(1i64<<60) && t1 < (1i64<<60));
        let (x0, x1): (f32, f32) = (kani::any(), kani::any());
        let evs = [Ev::Some(t0, x0), Ev::Some(t1, x1)];
        let mut script = Script::<N> { ev: evs, idx: 0 };
        let r = unsafe { Reference::from_ptr(&mut script as *mut Script<N>) };
        let mut e: EWMAStream<f32, _, u8> = EWMAStream::new(r.clone(), s);
        e.update().unwrap();
        r.borrow_mut().idx = 1;
        e.update().unwrap();
        let got = e.get().unwrap().unwrap();
        // reference
        let l0 = 1.0 - mix_powf(1.0 - s, 0i64 as f32 / 1_000_000_000.0);
        let v0 = x0 * (1.0 - l0) + x0 * l0;
        let dt = (t1 - t0) as f32 / 1_000_000_000.0;
        let l1 = 1.0 - mix_powf(1.0 - s, dt);
        let v1 = v0 * (1.0 - l1) + x1 * l1;
        assert!(got.time.0 == t1);
        assert!(same(got.value, v1));
    }
}
#[cfg(kani)]
mod h14 {
    use super::*;
    fn same(a: f32, b: f32) -> bool { a.to_bits() == b.to_bits() || (a.is_nan() && b.is_nan()) }
    fn ord(p: MotionProfilePiece) -> u8 { match p { MotionProfilePiece::BeforeStart => 0, MotionProfilePiece::InitialAcceleration => 1, MotionProfilePiece::ConstantVelocity => 2, MotionProfilePiece::EndAcceleration => 3, MotionProfilePiece::Complete => 4 } }
    #[kani::proof]
    fn mp_consistency() {
        let s = State::new_raw(kani::any(), kani::any(), kani::any());
        let e = State::new_raw(kani::any(), kani::any(), kani::any());
        let mv: f32 = kani::any(); let ma: f32 = kani::any();
        let mp = MotionProfile::new(s, e, Quantity::new(mv, MILLIMETER_PER_SECOND), Quantity::new(ma, MILLIMETER_PER_SECOND_SQUARED));
        let t: i64 = kani::any(); let t2: i64 = kani::any();
        let piece = mp.get_piece(Time(t));
        let mode = mp.get_mode(Time(t));
        let acc = mp.get_acceleration(Time(t));
        let vel = mp.get_velocity(Time(t));
        let pos = mp.get_position(Time(t));
        let h = <MotionProfile as History<Command, u8>>::get(&mp, Time(t));
        assert!((piece == MotionProfilePiece::BeforeStart) == (t < 0));
        assert!(mode.is_none() == (t < 0) && acc.is_none() == (t < 0) && h.is_none() == (t < 0));
        if t <= t2 { assert!(ord(piece) <= ord(mp.get_piece(Time(t2)))); }
        match piece {
            MotionProfilePiece::InitialAcceleration | MotionProfilePiece::EndAcceleration => assert!(mode == Some(PositionDerivative::Acceleration)),
            MotionProfilePiece::ConstantVelocity => assert!(mode == Some(PositionDerivative::Velocity)),
            MotionProfilePiece::Complete => assert!(mode == Some(PositionDerivative::from(Command::from(e)))),
            MotionProfilePiece::BeforeStart => {}
        }
        if let Some(d) = h {
            assert!(d.time.0 == t);
            assert!(Some(PositionDerivative::from(d.value)) == mode);
            let v = f32::from(d.value);
            match mode.unwrap() {
                PositionDerivative::Position => assert!(same(v, pos.unwrap().value)),
                PositionDerivative::Velocity => assert!(same(v, vel.unwrap().value)),
                PositionDerivative::Acceleration => assert!(same(v, acc.unwrap().value)),
            }
        }
    }
}
#[cfg(kani)]
mod h15 {
    use super::*;
    use super::h4::*;
    use rrtk::streams::control::*;
    fn run<const N: usize>() {
        let w: i64 = kani::any(); kani::assume(w > 0 && w < (1i64<<40));
        let mut evs = [Ev::None; N];
        let mut last = 0i64;
        for i in 0..N { let t: i64 = kani::any(); kani::assume(t >= last && t < (1i64<<50)); last = t; evs[i] = Ev::Some(t, kani::any()); }
        let mut script = Script::<N> { ev: evs, idx: 0 };
        let r = unsafe { Reference::from_ptr(&mut script as *mut Script<N>) };
        let mut ma: MovingAverageStream<f32, _, u8> = MovingAverageStream::new(r.clone(), Time(w));
        for i in 0..N {
            r.borrow_mut().idx = i;
            let res = ma.update();
            assert!(res == Ok(()));
        }
        let got = ma.get();
        assert!(got.is_ok());
        core::mem::forget(ma);
    }
    #[kani::proof] #[kani::unwind(5)] fn mavg_1() { run::<1>(); }
    #[kani::proof] #[kani::unwind(5)] fn mavg_2() { run::<2>(); }
}
