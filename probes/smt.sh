#!/bin/bash
# usage: smt.sh <harness> [timeout_s] [prop-regex]
H=$1; TO=${2:-120}; PR=${3:-assertion|unwind|overflow|bounds|dereference}
cd /tmp/probe
OUT=$(cargo kani --harness "$H" --only-codegen --no-overflow-checks $KANIFLAGS 2>&1) || { echo "$OUT" | tail -20; exit 3; }
SYM=$(ls -t target/kani/x86_64-unknown-linux-gnu/debug/build/probe/*/out/*"${H}".symtab.out | head -1)
MANGLED=$(basename "$SYM" .symtab.out | sed 's/^probe-[0-9a-f]*_//')
W=/tmp/probe/work/$H.out; mkdir -p /tmp/probe/work
goto-cc "$SYM" /root/.kani/kani-0.68.0/library/kani/kani_lib.c -o $W && goto-cc $W --function "$MANGLED" -o $W && goto-instrument --add-library --no-malloc-may-fail $W $W >/dev/null 2>&1 && goto-instrument --generate-function-body-options assert-false-assume-false --generate-function-body '.*' --drop-unused-functions $W $W > /dev/null 2>&1 && goto-instrument --ensure-one-backedge-per-target $W $W >/dev/null 2>&1 || exit 3
F="--no-malloc-may-fail --no-undefined-shift-check --no-signed-overflow-check --no-div-by-zero-check --no-self-loops-to-assumptions --no-pointer-primitive-check --object-bits 16 --slice-formula $CBMCFLAGS"
cbmc --show-properties $W 2>/dev/null | grep -E "^Property" | sed 's/^Property //; s/:$//' | grep -E "$PR" | grep -v reachability_check > /tmp/probe/work/$H.props
echo "harness $H: $(wc -l < /tmp/probe/work/$H.props) properties selected"
i=0
while read -r p; do
  i=$((i+1)); f=/tmp/probe/work/$H.$i.smt2; rm -f $f
  s0=$(date +%s.%N)
  cbmc $F $W --property "$p" --smt2 --outfile $f > /tmp/probe/work/$H.$i.log 2>&1
  s1=$(date +%s.%N)
  if [ ! -s $f ]; then
     if grep -q "VERIFICATION SUCCESSFUL" /tmp/probe/work/$H.$i.log; then echo "  [$p] proved-by-simplification symex=$(echo "$s1-$s0"|bc)"; else echo "  [$p] NOFILE"; tail -3 /tmp/probe/work/$H.$i.log; fi
     continue
  fi
  if ! grep -q "(check-sat)" $f; then echo "  [$p] trivial(no VCC left after symex) symex=$(echo "$s1-$s0"|bc)s"; continue; fi
  python3 /tmp/probe/repair.py $f $f.r 2>/tmp/probe/work/rep.log && mv $f.r $f
  r=$( { timeout $TO ${SOLVER:-z3-new} $f 2>&1 | head -1; } )
  s2=$(date +%s.%N)
  echo "  [$p] ${r:-TIMEOUT} symex=$(echo "$s1-$s0"|bc)s solve=$(echo "$s2-$s1"|bc)s size=$(wc -c <$f)"
done < /tmp/probe/work/$H.props
