#!/bin/bash
# usage: kres.sh harness [extra kani flags]  -> prints failing checks and verdict
H=$1; shift
( time timeout ${TO:-600} cargo kani --harness $H "$@" 2>&1 | awk '/^Check [0-9]+:/{c=$0} /Status: FAILURE|Status: SATISFIED|Status: UNSATISFIABLE|Status: UNREACHABLE|Status: UNDETERMINED/{s=$0; getline d; getline l; print c " |" s " |" d " |" l} /VERIFICATION|Verification Time|^error|Complete -/{print}' ) 2>&1 | grep -v "^user\|^sys\|^$" | cut -c1-420
